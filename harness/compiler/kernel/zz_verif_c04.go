//go:build verif

package kernel

import (
	"github.com/brimdata/super"
	"github.com/brimdata/super/compiler/ast/dag"
	"github.com/brimdata/super/internal/verif"
	"github.com/brimdata/super/zcode"
)

// ---------------------------------------------------------------------------
// C04-O3 literal pattern
// ---------------------------------------------------------------------------

const (
	vC04String = iota
	vC04Bytes
	vC04Type
	vC04IP
	vC04Bool
	vC04Int64
	vC04Float64
	vC04Time
	vC04Null
	vC04NKinds
)

// vC04Literal returns a literal of the chosen kind with symbolic contents and
// whether values of that kind are comparable across types (numbers: `x==1`
// matches 1, 1(uint8), 1.0, ..., so no single byte pattern is sound; null
// likewise has no bytes).
func vC04Literal(kind, maxLen int) (val zed.Value, number bool) {
	switch kind {
	case vC04String:
		return zed.NewString(verif.String("v", maxLen)), false
	case vC04Bytes:
		return zed.NewBytes(verif.Bytes("v", maxLen)), false
	case vC04Type:
		// a type value: the bytes are opaque to the comparison (CompareBytes)
		return zed.NewValue(zed.TypeType, verif.Bytes("v", maxLen)), false
	case vC04IP:
		// zed.EncodeIP of an IPv4 address is its 4 bytes
		return zed.NewValue(zed.TypeIP, []byte{10, verif.Byte("v1"), 0, verif.Byte("v3")}), false
	case vC04Bool:
		return zed.NewBool(verif.Bool("v")), false
	case vC04Int64:
		return zed.NewInt64(verif.Int64("v")), true
	case vC04Float64:
		return zed.NewFloat64(verif.Float64("v")), true
	case vC04Time:
		return zed.NewValue(zed.TypeTime, zed.EncodeInt(verif.Int64("v"))), true
	}
	return zed.Null, true
}

func vC04LiteralPattern(kind, maxLen int) {
	val, number := vC04Literal(kind, maxLen)
	bf, err := newBufferFilterForLiteral(val)
	verif.Assert(err == nil, "literal-filter-error")
	if number {
		verif.Assert(bf == nil, "number-or-null-literal-gets-a-byte-pattern")
		verif.Reach("number")
		return
	}
	if bf == nil {
		verif.Reach("no-filter")
		return
	}
	// A values buffer that holds the value, built by zcode.Builder: either
	// the record {v, q} or the record {p, [v]} (value one level deeper), with
	// arbitrary one-byte neighbours p, q.
	var b zcode.Builder
	if verif.Bool("nested") {
		b.Append([]byte{verif.Byte("p")})
		b.BeginContainer()
		b.Append(val.Bytes())
		b.EndContainer()
	} else {
		b.Append(val.Bytes())
		b.Append([]byte{verif.Byte("q")})
	}
	buf := zcode.Append([]byte{30}, b.Bytes()) // type id, then the tagged record body
	verif.Assert(bf.Eval(nil, buf), "literal-pattern-missing-from-buffer-holding-the-value")
	verif.Reach("filter")
	verif.Reach("end")
}

// verif:desc C04-O3 kernel.newBufferFilterForLiteral(val) (val.Encode + expr.NewBufferFilterForString + the real Finder): for a string, bytes, type, ip or bool literal, every values buffer in which zcode.Builder placed that value (as a record field or one level deeper, neighbours arbitrary) passes the filter; number, time and null literals get no filter (they compare across types).
// verif:bounds string/bytes/type value of 0..2 symbolic bytes, ip 10.x.0.y with x,y symbolic, bool; buffer = record {v,q} or {p,[v]} with one-byte symbolic neighbours p,q; int64/float64/time contents symbolic
// verif:outside literals of named or complex types; longer values (pattern longer than 3 bytes: thorough harness); the comparison semantics of the evaluator itself
// verif:unwind 40
// verif:solver z3-new
func VerifH_C04_O3_literal() {
	kind := verif.Choose("kind", vC04NKinds)
	vC04LiteralPattern(kind, 2)
}

// verif:desc C04-O3 (thorough bound) as VerifH_C04_O3_literal with string/bytes values of 0..3 bytes
// verif:bounds string/bytes/type value of 0..3 symbolic bytes; otherwise as VerifH_C04_O3_literal
// verif:tier thorough
// verif:unwind 48
// verif:solver z3-new
func VerifH_C04_O3_literal_thorough() {
	kind := verif.Choose("kind", 3)
	vC04LiteralPattern(kind, 3)
}

// ---------------------------------------------------------------------------
// C04-O4 and/or composition
// ---------------------------------------------------------------------------

type vC04Leaf struct {
	e       dag.Expr
	truth   bool // what the evaluator says for the value(s) in the buffer
	pattern int  // 0: no buffer filter can be built for this leaf; 1, 2: which literal
}

var vC04Lits = []string{"", `"ab"`, `"cd"`}

// vC04MkLeaf: a leaf predicate.  kind 0/1: `this.f == "ab"` / `this.g == "cd"`
// (a buffer filter exists: the tagged string); kind 2: `this.h < 5` (none);
// kind 3: `this.k == 5` (number literal: none).  Its truth on the record in
// the buffer is an arbitrary Boolean, restricted only by leaf soundness:
// a true `field == "ab"` means the record holds the string "ab", so the
// buffer contains its encoding (present[pattern]).
func vC04MkLeaf(name string, present []bool) vC04Leaf {
	kind := verif.Choose(name+".kind", 4)
	truth := verif.Bool(name + ".truth")
	this := &dag.This{Kind: "This", Path: []string{name}}
	switch kind {
	case 0, 1:
		verif.Assume(vC04Or(!truth, present[kind+1]))
		return vC04Leaf{dag.NewBinaryExpr("==", this, &dag.Literal{Kind: "Literal", Value: vC04Lits[kind+1]}), truth, kind + 1}
	case 2:
		return vC04Leaf{dag.NewBinaryExpr("<", this, &dag.Literal{Kind: "Literal", Value: "5"}), truth, 0}
	}
	return vC04Leaf{dag.NewBinaryExpr("==", this, &dag.Literal{Kind: "Literal", Value: "5"}), truth, 0}
}

// Non-forking Boolean connectives (gosym maps them to single terms, see
// engine/gosym/intrinsics_c04.go; natively these bodies run).
func vC04And(a, b bool) bool { return a && b }
func vC04Or(a, b bool) bool  { return a || b }

func vC04Join(op string, a, b vC04Leaf) vC04Leaf {
	t := vC04And(a.truth, b.truth)
	if op == "or" {
		t = vC04Or(a.truth, b.truth)
	}
	return vC04Leaf{e: dag.NewBinaryExpr(op, a.e, b.e), truth: t}
}

// vC04Buffers: values buffers holding the tagged strings "ab" / "cd" or not.
var vC04Buffers = []struct {
	buf     []byte
	present []bool
}{
	{[]byte{30, 4, 3, 'z', 'z'}, []bool{false, false, false}},
	{[]byte{30, 4, 3, 'a', 'b'}, []bool{false, true, false}},
	{[]byte{30, 4, 3, 'c', 'd'}, []bool{false, false, true}},
	{[]byte{30, 7, 3, 'a', 'b', 3, 'c', 'd'}, []bool{false, true, true}},
}

func vC04Compose(nested bool) {
	bk := vC04Buffers[verif.Choose("buffer", len(vC04Buffers))]
	ops := []string{"and", "or"}
	x := vC04MkLeaf("x", bk.present)
	y := vC04MkLeaf("y", bk.present)
	top := vC04Join(ops[verif.Choose("op1", 2)], x, y)
	if nested {
		z := vC04MkLeaf("z", bk.present)
		op2 := ops[verif.Choose("op2", 2)]
		if verif.Bool("left") {
			top = vC04Join(op2, top, z)
		} else {
			top = vC04Join(op2, z, top)
		}
	}
	zctx := zed.NewContext()
	bf, err := CompileBufferFilter(zctx, top.e)
	verif.Assert(err == nil, "compile-error")
	if err != nil {
		return
	}
	if bf == nil {
		verif.Reach("no-filter")
	} else {
		pass := bf.Eval(zctx, bk.buf)
		// the predicate is true of a record in the buffer => the buffer passes
		verif.Assert(vC04Or(!top.truth, pass), "composed-filter-drops-matching-buffer")
		verif.Reach("filter")
		if !pass {
			verif.Reach("filter-drops")
		}
	}
	verif.Reach("end")
}

// verif:desc C04-O4 kernel.CompileBufferFilter over `x op y` (op in and, or): with leaf soundness as hypothesis (a true `field == "lit"` implies the buffer holds the literal's encoding; leaves without a filter have arbitrary truth), the composed expr.BufferFilter.Eval never rejects a buffer for which the predicate is true.  In particular `or` with a side that has no filter must yield no filter, and `and` may keep the other side's.
// verif:bounds leaves: `this.f=="ab"`, `this.g=="cd"`, `this.h<5`, `this.k==5` (4 kinds per position); 4 buffers (holding none, "ab", "cd", both); leaf truth values symbolic
// verif:outside leaf soundness itself (C04-O1, O3); `in` leaves; search leaves (C04-O5); deeper trees (see _nested)
// verif:solver z3-new
func VerifH_C04_O4_compose() {
	vC04Compose(false)
}

// verif:desc C04-O4 as VerifH_C04_O4_compose for trees nested once: `(x op1 y) op2 z` and `z op2 (x op1 y)`.
// verif:bounds as VerifH_C04_O4_compose with three leaves, op1, op2 in {and, or}, either nesting side
// verif:tier thorough
// verif:solver z3-new
func VerifH_C04_O4_compose_nested() {
	vC04Compose(true)
}
