//go:build verif

package kernel

import (
	"github.com/brimdata/super"
	"github.com/brimdata/super/compiler/ast/dag"
	"github.com/brimdata/super/internal/verif"
	"github.com/brimdata/super/pkg/field"
	"github.com/brimdata/super/runtime"
	"github.com/brimdata/super/runtime/sam/expr"
	"github.com/brimdata/super/zcode"
)

func v14Builder(zctx *zed.Context) *Builder {
	return &Builder{
		rctx:         &runtime.Context{Zctx: zctx},
		mctx:         zed.NewContext(),
		udfs:         map[string]dag.Expr{},
		compiledUDFs: map[string]*expr.UDF{},
	}
}

// v14Passes is the test every scanner applies to a filter result
// (zbuf.scanner.Read, zngio check): the value passes iff the result is the
// Boolean true.
func v14Passes(v zed.Value) bool {
	return v.Type() == zed.TypeBool && v.Bool()
}

func v14Record(zctx *zed.Context, name string, typ zed.Type, body zcode.Bytes) zed.Value {
	var b zcode.Builder
	b.Append(body)
	rt := zctx.MustLookupTypeRecord([]zed.Field{zed.NewField(name, typ)})
	return zed.NewValue(rt, b.Bytes())
}

// v14Check compiles pushdown both as the predicate P (Filter.AsEvaluator, what
// `where P` runs) and as its delete-where complement
// (DeleteFilter.AsEvaluator, what the object rewrite of `delete where P` runs)
// and asserts that val survives the rewrite iff P is not true for it.
func v14Check(zctx *zed.Context, pushdown dag.Expr, val zed.Value) {
	f := &DeleteFilter{&Filter{pushdown: pushdown, builder: v14Builder(zctx)}}
	pred, err := f.Filter.AsEvaluator()
	verif.Assert(err == nil && pred != nil, "predicate-compiles")
	keep, err2 := f.AsEvaluator()
	verif.Assert(err2 == nil && keep != nil, "complement-compiles")
	if err != nil || err2 != nil {
		return
	}
	bf, err3 := f.AsBufferFilter()
	verif.Assert(bf == nil && err3 == nil, "no-buffer-filter-for-delete")
	p := pred.Eval(expr.NewContext(), val)
	deleted := v14Passes(p)
	kept := v14Passes(keep.Eval(expr.NewContext(), val))
	verif.Observe("deleted", deleted)
	verif.Observe("kept", kept)
	switch {
	case p.IsError() && !p.IsMissing():
		// region of the finding "a predicate that evaluates to a non-missing
		// error deletes the value" (!P is that error, `or` propagates it)
		verif.Reach("predicate-error")
		verif.Assert(kept == !deleted, "kept-iff-predicate-not-true/predicate-is-error")
	case !p.IsError() && zed.TypeUnder(p.Type()) != zed.TypeBool:
		// same root cause: !P is error("not type bool") for a non-Boolean P
		verif.Reach("predicate-not-boolean")
		verif.Assert(kept == !deleted, "kept-iff-predicate-not-true/predicate-is-not-boolean")
	default:
		verif.Assert(kept == !deleted, "kept-iff-predicate-not-true")
	}
	if deleted {
		verif.Reach("predicate-true")
	}
	if p.IsMissing() {
		verif.Reach("predicate-missing")
	}
}

// verif:desc C14-O5 kernel.DeleteFilter.AsEvaluator (the `!P or missing(P)` rewrite, compiled by the real Builder.compileExpr into expr.Or/Not/missing) against Filter.AsEvaluator for the predicate P = `this.p`: a value survives the delete-where rewrite of its object iff P is not true for it (scanner rule: a filter passes a value iff its result is the Boolean true).
// verif:bounds value {p:X} with X one of: any bool, null(bool), int64 any value in -128..127 (not a bool), string "s", error("boom"), error("missing"); or a record without field p
// verif:outside the scan/rewrite/commit machinery (meta.Deleter, Branch.DeleteWhere); predicates other than a field reference (see O5b)
func VerifH_C14_O5_delete_where_complement() {
	zctx := zed.NewContext()
	pushdown := &dag.This{Kind: "This", Path: field.Path{"p"}}
	var val zed.Value
	switch verif.Choose("kind", 7) {
	case 0:
		val = v14Record(zctx, "p", zed.TypeBool, zed.EncodeBool(verif.Bool("b")))
	case 1:
		val = v14Record(zctx, "p", zed.TypeBool, nil)
	case 2:
		val = v14Record(zctx, "p", zed.TypeInt64, zed.EncodeInt(int64(verif.Int8("i"))))
	case 3:
		val = v14Record(zctx, "p", zed.TypeString, zed.EncodeString("s"))
	case 4:
		val = v14Record(zctx, "p", zctx.LookupTypeError(zed.TypeString), zed.EncodeString("boom"))
	case 5:
		val = v14Record(zctx, "p", zctx.LookupTypeError(zed.TypeString), zed.EncodeString("missing"))
	case 6:
		val = v14Record(zctx, "q", zed.TypeInt64, zed.EncodeInt(1))
	}
	v14Check(zctx, pushdown, val)
	verif.Reach("end")
}

// verif:desc C14-O5b as C14-O5 for the predicate P = `1/this.k == 1` (real expr.Divide, expr.Compare, literal compilation): `delete where 1/k==1` keeps exactly the values for which the predicate is not true.
// verif:bounds value {k:K} with K any int64 in -128..127 (including 0: divide by zero), null(int64), or string "s" (incompatible types); or a record without field k
// verif:outside other predicates; the scan/rewrite/commit machinery
func VerifH_C14_O5b_delete_where_divide() {
	zctx := zed.NewContext()
	one := &dag.Literal{Kind: "Literal", Value: "1"}
	pushdown := dag.NewBinaryExpr("==",
		dag.NewBinaryExpr("/", one, &dag.This{Kind: "This", Path: field.Path{"k"}}),
		one)
	var val zed.Value
	switch verif.Choose("kind", 4) {
	case 0:
		val = v14Record(zctx, "k", zed.TypeInt64, zed.EncodeInt(int64(verif.Int8("k"))))
	case 1:
		val = v14Record(zctx, "k", zed.TypeInt64, nil)
	case 2:
		val = v14Record(zctx, "k", zed.TypeString, zed.EncodeString("s"))
	case 3:
		val = v14Record(zctx, "j", zed.TypeInt64, zed.EncodeInt(5))
	}
	v14Check(zctx, pushdown, val)
	verif.Reach("end")
}
