//go:build verif

package kernel

import (
	"bytes"
	"context"
	"errors"
	"io"

	"github.com/brimdata/super"
	"github.com/brimdata/super/compiler/ast/dag"
	"github.com/brimdata/super/compiler/optimizer"
	"github.com/brimdata/super/internal/verif"
	"github.com/brimdata/super/lake/data"
	"github.com/brimdata/super/lake/seekindex"
	"github.com/brimdata/super/order"
	"github.com/brimdata/super/pkg/bufwriter"
	"github.com/brimdata/super/pkg/field"
	"github.com/brimdata/super/pkg/storage"
	"github.com/brimdata/super/runtime/sam/expr"
	"github.com/brimdata/super/zcode"
	"github.com/brimdata/super/zio/zngio"
	"github.com/brimdata/super/zson"
)

// verif:needs compiler/optimizer

// (this obligation lives in package kernel because only here the real
// optimizer pruner, the real expression compiler and lake/data can be
// imported together without a cycle)

// v16dStore is the model storage engine: it holds the seek index object.
type v16dStore struct {
	name string
	data []byte
	gets int
}

type v16dWriter struct{ s *v16dStore }

func (w v16dWriter) Write(p []byte) (int, error) {
	w.s.data = append(w.s.data, p...)
	return len(p), nil
}
func (v16dWriter) Close() error { return nil }

type v16dReader struct{ *bytes.Reader }

func (v16dReader) Close() error { return nil }

var errV16d = errors.New("verif: not part of the model")

func (s *v16dStore) Get(_ context.Context, u *storage.URI) (storage.Reader, error) {
	if u.Path != s.name {
		return nil, errV16d
	}
	s.gets++
	return v16dReader{bytes.NewReader(s.data)}, nil
}
func (s *v16dStore) Put(_ context.Context, u *storage.URI) (io.WriteCloser, error) {
	s.name = u.Path
	s.data = nil
	return v16dWriter{s}, nil
}
func (s *v16dStore) PutIfNotExists(context.Context, *storage.URI, []byte) error { return errV16d }
func (s *v16dStore) Delete(context.Context, *storage.URI) error                 { return errV16d }
func (s *v16dStore) DeleteByPrefix(context.Context, *storage.URI) error         { return errV16d }
func (s *v16dStore) Exists(context.Context, *storage.URI) (bool, error)         { return false, errV16d }
func (s *v16dStore) Size(context.Context, *storage.URI) (int64, error)          { return 0, errV16d }
func (s *v16dStore) List(context.Context, *storage.URI) ([]storage.Info, error) { return nil, errV16d }

// v16dKey is a pool-key value: int64 or null.
type v16dKey struct {
	null bool
	v    int64
}

func (k v16dKey) val() zed.Value {
	if k.null {
		return zed.NullInt64
	}
	return zed.NewInt64(k.v)
}

func v16dSymKey(name string, null bool, lo int) v16dKey {
	if null {
		return v16dKey{null: true}
	}
	// quick tier 1..60: positive, non-zero, one byte when encoded (the integer
	// encoder forks on sign, zero and length; not this obligation's subject)
	return v16dKey{v: int64(verif.Range(name, lo, 60))}
}

// v16dLE is the key order of the lake: ascending, nulls last.
func v16dLE(a, b v16dKey) bool {
	if a.null || b.null {
		return b.null
	}
	return a.v <= b.v
}

// v16dEntryPruner feeds the real compiled pruner.  LookupSeekRange evaluates
// its pruner on the seek index values as they come out of the zngio reader.
// Natively those are the marshalled records {min,max,val_off,...} and the real
// pruner (this.min / this.max) applies directly.  Under gosym the reflection
// marshaller is a token pair: the value is an opaque token that only
// Unmarshal understands.  So in both worlds this adapter unmarshals the value
// into a seekindex.Entry, rebuilds the record {min,max} from it and evaluates
// the REAL pruner on that; natively it also evaluates the real pruner on the
// value itself and requires the same verdict.
type v16dEntryPruner struct {
	zctx *zed.Context
	real expr.Evaluator
	seen int
}

func v16dSkips(v zed.Value) bool {
	return v.Type() == zed.TypeBool && v.Bool()
}

func (p *v16dEntryPruner) Eval(ectx expr.Context, val zed.Value) zed.Value {
	p.seen++
	var e seekindex.Entry
	if err := zson.UnmarshalZNG(val, &e); err != nil {
		verif.Assert(false, "entry-unmarshals")
		return zed.False
	}
	typ := p.zctx.MustLookupTypeRecord([]zed.Field{zed.NewField("min", e.Min.Type()), zed.NewField("max", e.Max.Type())})
	var b zcode.Builder
	b.Append(e.Min.Bytes())
	b.Append(e.Max.Bytes())
	rec := zed.NewValue(typ, b.Bytes())
	skip := verif.MergeBool(func() bool { return v16dSkips(p.real.Eval(ectx, rec)) })
	if !verif.Symbolic() {
		verif.Assert(v16dSkips(p.real.Eval(ectx, val)) == skip, "pruner-on-entry-record-agrees")
	}
	return zed.NewBool(skip)
}

var v16dOps = []string{"==", "<", "<=", ">", ">="}

const v16dLit = 30

func v16dTruth(op string, k v16dKey) bool {
	if k.null {
		return false // a comparison with a null key is not true
	}
	switch op {
	case "==":
		return k.v == v16dLit
	case "<":
		return k.v < v16dLit
	case "<=":
		return k.v <= v16dLit
	case ">":
		return k.v > v16dLit
	}
	return k.v >= v16dLit
}

type v16dEnt struct {
	min, max, wit v16dKey
	off, end      uint64
}

// verif:desc C16-O4 seek-index pruning end to end: a seek index of 3 entries is written by the real seekindex.Writer through zngio.Writer+bufwriter to a model store (as data.Object.NewWriter wires it) and looked up with the real data.LookupSeekRange (zngio.Reader, pruner evaluation per entry, Unmarshal, seekindex.Ranges.Append).  The pruner is the REAL one: optimizer.maybeNewRangePruner for `k op 30`, compiled by the real kernel Builder.compileExpr (expr.Call compare(), literal parsing), applied to the entry's {min,max}.  Asserted: no error; every entry whose [min,max] contains a key satisfying the predicate lies inside one returned range (nothing that matches is skipped); the ranges are inside the object, start and end on entry boundaries, are in increasing order and do not touch or overlap; each entry is evaluated exactly once.  With an opaque predicate no pruner is synthesized and LookupSeekRange(nil) returns nil ranges and no error without reading the index (= scan the whole object, data.Object.NewReader's convention); with a pruner that never skips the one range is the whole object.
// verif:bounds 3 entries in file order; per entry min, max and a witness key: any int64 in 1..60 (positive one-byte encodings) with min <= witness <= max, entries consistent with an ascending or a descending object under the lake's nulls-last order (Choose); the entry at the high end has 0..3 of (max, witness, min) null; byte offsets symbolic, strictly increasing, < 2^40; value counts 1 per entry; predicate `k op 30` for op in {==,<,<=,>,>=}, an opaque predicate (nil pruner), or a never-skipping pruner
// verif:outside the zson reflection marshaller (token pair under gosym: the pruner sees {min,max} rebuilt from the unmarshalled entry; natively the real marshaller runs and the pruner is also applied to the marshalled record itself); literal on the left / and / or (C16-O1); keys of other types; a failing store (C18); more than 3 entries; 2 entries and negative/zero keys are in the thorough variant
// verif:unwind 64
func VerifH_C16_O4_seek_ranges() {
	v16dSeekRanges(3, 1)
}

// verif:desc C16-O4t as O4_seek_ranges for 2 or 3 entries and keys in -20..60 (negative, zero and positive encodings)
// verif:bounds as O4_seek_ranges with 2-3 entries and keys in -20..60
// verif:outside as O4_seek_ranges
// verif:tier thorough
// verif:unwind 64
func VerifH_C16_O4t_seek_ranges_wide() {
	v16dSeekRanges(2+verif.Choose("n", 2), -20)
}

func v16dSeekRanges(n, keyLo int) {
	desc := verif.Choose("desc", 2) == 1
	mode := verif.Choose("pred", len(v16dOps)+2)
	ents := make([]v16dEnt, n)
	var prevEnd uint64
	for i := range ents {
		name := "e" + string(rune('0'+i))
		e := &ents[i]
		// nulls sort last, so only the entry at the high end of the object can
		// hold them: as its max, as max and witness, or as all three
		nulls := 0
		if high := (desc && i == 0) || (!desc && i == n-1); high {
			nulls = verif.Choose("high.nulls", 4)
		}
		e.min, e.wit, e.max = v16dSymKey(name+".min", nulls >= 3, keyLo), v16dSymKey(name+".key", nulls >= 2, keyLo), v16dSymKey(name+".max", nulls >= 1, keyLo)
		verif.Assume(v16dLE(e.min, e.wit))
		verif.Assume(v16dLE(e.wit, e.max))
		if i > 0 {
			if desc {
				verif.Assume(v16dLE(e.max, ents[i-1].min))
			} else {
				verif.Assume(v16dLE(ents[i-1].max, e.min))
			}
		}
		e.off = prevEnd
		e.end = uint64(verif.Range(name+".end", 1, 1<<40))
		verif.Assume(e.end > e.off)
		prevEnd = e.end
	}
	total := int64(prevEnd)

	// write the index the way data.Object.NewWriter does
	store := &v16dStore{}
	path := &storage.URI{Scheme: "file", Path: "/pool"}
	obj := data.NewObject()
	out, err := store.Put(context.Background(), obj.SeekIndexURI(path))
	verif.Assert(err == nil, "put-noerr")
	sw := seekindex.NewWriter(zngio.NewWriter(bufwriter.New(out)))
	for i, e := range ents {
		verif.Assert(sw.Write(e.min.val(), e.max.val(), uint64(i+1), e.end) == nil, "index-write-noerr")
	}
	verif.Assert(sw.Close() == nil, "index-close-noerr")

	// the pruner
	zctx := zed.NewContext()
	var pruner expr.Evaluator
	var counting *v16dEntryPruner
	op := ""
	o := order.Asc
	if desc {
		o = order.Desc
	}
	sortKeys := order.SortKeys{order.NewSortKey(o, field.Path{"k"})}
	switch {
	case mode < len(v16dOps):
		op = v16dOps[mode]
		pred := dag.NewBinaryExpr(op, &dag.This{Kind: "This", Path: field.Path{"k"}}, &dag.Literal{Kind: "Literal", Value: "30"})
		e := optimizer.VerifRangePruner(pred, sortKeys)
		verif.Assert(e != nil, "pruner-synthesized")
		real, err := v14Builder(zctx).compileExpr(e)
		verif.Assert(err == nil && real != nil, "pruner-compiles")
		if err != nil || real == nil {
			return
		}
		counting = &v16dEntryPruner{zctx: zctx, real: real}
		pruner = counting
	case mode == len(v16dOps):
		// a predicate the optimizer knows nothing about: no pruner
		e := optimizer.VerifRangePruner(&dag.Call{Kind: "Call", Name: "opaque"}, sortKeys)
		verif.Assert(e == nil, "no-pruner-for-opaque-predicate")
	default:
		// a pruner that never says "skip"
		real, err := v14Builder(zctx).compileExpr(&dag.Literal{Kind: "Literal", Value: "false"})
		verif.Assert(err == nil && real != nil, "pruner-compiles")
		if err != nil || real == nil {
			return
		}
		counting = &v16dEntryPruner{zctx: zctx, real: real}
		pruner = counting
	}

	ranges, err := data.LookupSeekRange(context.Background(), store, path, &obj, pruner)
	verif.Assert(err == nil, "lookup-noerr")
	if err != nil {
		return
	}
	if pruner == nil {
		verif.Assert(ranges == nil && store.gets == 0, "nil-pruner-scans-whole-object")
		verif.Reach("nil-pruner")
		verif.Reach("end")
		return
	}
	verif.Assert(store.gets == 1 && counting.seen == n, "every-entry-evaluated-once")

	// shape of the ranges (offsets are symbolic: each check is folded into one
	// term so that it costs a query, not a fork)
	var last, sum int64
	for j, r := range ranges {
		verif.Assert(r.Length > 0 && r.Offset >= 0 && r.Offset+r.Length <= total, "range-inside-object")
		if j > 0 {
			verif.Assert(r.Offset > last, "ranges-increasing-and-disjoint")
		}
		last = r.Offset + r.Length
		sum += r.Length
		onBoundaries := verif.MergeBool(func() bool {
			startsAtEntry, endsAtEntry := false, false
			for _, e := range ents {
				if int64(e.off) == r.Offset {
					startsAtEntry = true
				}
				if int64(e.end) == r.Offset+r.Length {
					endsAtEntry = true
				}
			}
			return startsAtEntry && endsAtEntry
		})
		verif.Assert(onBoundaries, "range-on-entry-boundaries")
	}
	// soundness: nothing that can hold a matching key is skipped
	for i, e := range ents {
		in := verif.MergeBool(func() bool {
			for _, r := range ranges {
				if r.Offset <= int64(e.off) && int64(e.end) <= r.Offset+r.Length {
					return true
				}
			}
			return false
		})
		if op == "" {
			verif.Assert(in, "never-skipping-pruner-covers-everything")
			continue
		}
		matches := verif.MergeBool(func() bool { return v16dTruth(op, e.wit) })
		verif.Assert(!matches || in, "entry-with-matching-key-skipped")
		if i == 0 && matches {
			verif.Reach("matching-entry")
		}
	}
	if op == "" {
		verif.Assert(len(ranges) == 1 && ranges[0].Offset == 0 && ranges[0].Length == total, "never-skipping-pruner-covers-everything")
	}
	if len(ranges) == 0 {
		verif.Reach("pruned-everything")
	} else if sum < total {
		verif.Reach("pruned-something")
	}
	verif.Reach("end")
}
