//go:build verif

package kernel

// verif:needs runtime/sam/op/join runtime/sam/op/sort

import (
	"context"

	"github.com/brimdata/super"
	"github.com/brimdata/super/compiler/ast/dag"
	"github.com/brimdata/super/internal/verif"
	"github.com/brimdata/super/order"
	"github.com/brimdata/super/pkg/field"
	"github.com/brimdata/super/runtime"
	"github.com/brimdata/super/runtime/sam/expr"
	"github.com/brimdata/super/runtime/sam/op/join"
	"github.com/brimdata/super/runtime/sam/op/sort"
	"github.com/brimdata/super/zbuf"
	"github.com/brimdata/super/zcode"
)

// v10cMarker is a distinguishable upstream of the join; it is never pulled.
type v10cMarker struct{ id int }

func (*v10cMarker) Pull(bool) (zbuf.Batch, error) { return nil, nil }

// v10cKeyRec is {lk:10,rk:20}: the compiled LeftKey (this.lk) evaluates to 10
// on it and the compiled RightKey (this.rk) to 20, which identifies an
// evaluator without relying on pointer identity.
func v10cKeyRec(zctx *zed.Context) zed.Value {
	var b zcode.Builder
	b.Append(zed.EncodeInt(10))
	b.Append(zed.EncodeInt(20))
	rt := zctx.MustLookupTypeRecord([]zed.Field{zed.NewField("lk", zed.TypeInt64), zed.NewField("rk", zed.TypeInt64)})
	return zed.NewValue(rt, b.Bytes())
}

func v10cKeyOf(e expr.Evaluator, rec zed.Value) int64 {
	if e == nil {
		return -1
	}
	v := e.Eval(expr.NewContext(), rec)
	if v.Type() != zed.TypeInt64 || v.IsNull() {
		return -1
	}
	return v.Int()
}

// v10cRec is {lk:X,rk:X} and the key value X: null(int64) or the int64 with
// the one-byte body [x] (x != 0: every non-zero integer of magnitude <= 127).
func v10cRec(zctx *zed.Context, isNull bool, x byte) (zed.Value, zed.Value) {
	var body zcode.Bytes
	if !isNull {
		body = zcode.Bytes{x}
	}
	key := zed.NewValue(zed.TypeInt64, body)
	var b zcode.Builder
	b.Append(body)
	b.Append(body)
	rt := zctx.MustLookupTypeRecord([]zed.Field{zed.NewField("lk", zed.TypeInt64), zed.NewField("rk", zed.TypeInt64)})
	return zed.NewValue(rt, b.Bytes()), key
}

func v10cSign(c int) int {
	switch {
	case c < 0:
		return -1
	case c > 0:
		return 1
	}
	return 0
}

func v10cJoinPlan() {
	zctx := zed.NewContext()
	b := &Builder{
		rctx:         runtime.NewContext(context.Background(), zctx),
		mctx:         zed.NewContext(),
		udfs:         map[string]dag.Expr{},
		compiledUDFs: map[string]*expr.UDF{},
	}
	styles := []string{"inner", "left", "right", "anti"}
	dirs := []order.Direction{order.Unknown, order.Up, order.Down}
	style := styles[verif.Choose("style", 4)]
	dir := [2]order.Direction{dirs[verif.Choose("leftDir", 3)], dirs[verif.Choose("rightDir", 3)]}
	j := &dag.Join{
		Kind:     "Join",
		Style:    style,
		LeftKey:  &dag.This{Kind: "This", Path: field.Path{"lk"}},
		LeftDir:  dir[0],
		RightKey: &dag.This{Kind: "This", Path: field.Path{"rk"}},
		RightDir: dir[1],
	}
	markers := [2]*v10cMarker{{0}, {1}}
	keyVal := [2]int64{10, 20} // what parents[i]'s own join key evaluates to on v10cKeyRec
	out, err := b.compile(j, []zbuf.Puller{markers[0], markers[1]})
	verif.Assert(err == nil && len(out) == 1, "join-compiles")
	if err != nil || len(out) != 1 {
		return
	}
	jop, ok := out[0].(*join.Op)
	verif.Assert(ok, "join-compiles-to-join-op")
	if !ok {
		return
	}
	left, right, leftKey, rightKey, anti, inner, compare := join.VerifPlan(jop)
	rec := v10cKeyRec(zctx)

	// (a) which physical parent is consumed as the left (outer) input
	L := 0
	if style == "right" {
		L = 1
		verif.Reach("right-join")
	}
	verif.Assert(anti == (style == "anti"), "anti-flag")
	verif.Assert(inner == (style == "inner"), "inner-flag")
	verif.Assert(v10cKeyOf(leftKey, rec) == keyVal[L], "left-input-keyed-by-its-own-key")
	verif.Assert(v10cKeyOf(rightKey, rec) == keyVal[1-L], "right-input-keyed-by-its-own-key")

	// direction of the merge join
	desc := compare(zed.NewInt64(1), zed.NewInt64(2)) > 0
	verif.Assert(compare(zed.NewInt64(2), zed.NewInt64(1)) > 0 == !desc, "join-compare-is-an-order")
	verif.Observe("desc", desc)

	side := [2]zbuf.Puller{left, right}
	phys := [2]int{L, 1 - L}
	names := [2]string{"left", "right"}
	for s := 0; s < 2; s++ {
		p := phys[s]
		declaredInJoinDir := dir[p] != order.Unknown && (dir[p] == order.Down) == desc
		if sop, wrapped := side[s].(*sort.Op); wrapped {
			verif.Reach(names[s] + "-sorted")
			parent, keys, nullsFirst, reverse := sort.VerifParts(sop)
			// (a) for a re-sorted input
			verif.Assert(parent == zbuf.Puller(markers[p]), names[s]+"-input-is-expected-parent")
			// (b) sorted on ITS OWN key, in the direction the join compares in
			verif.Assert(len(keys) == 1, names[s]+"-sort-has-one-key")
			if len(keys) == 1 {
				verif.Assert(v10cKeyOf(keys[0].Evaluator, rec) == keyVal[p], names[s]+"-sorted-on-its-own-key")
				verif.Assert(((keys[0].Order == order.Desc) != reverse) == desc, names[s]+"-sorted-in-join-direction")
			}
			// the join compares with nulls as the largest key: nulls last when
			// ascending, first when descending (see O4b for the comparator check)
			verif.Assert(nullsFirst == desc, names[s]+"-sort-null-placement-is-join-null-placement")
			// (b) an input the DAG declares ordered in the join's direction is not re-sorted
			verif.Assert(!declaredInJoinDir, names[s]+"-declared-order-not-resorted")
		} else {
			verif.Reach(names[s] + "-unsorted")
			verif.Assert(side[s] == zbuf.Puller(markers[p]), names[s]+"-input-is-expected-parent")
			// (b) an input that is not re-sorted must be declared ordered in the
			// direction the join compares in -- by the declaration that belongs
			// to this physical parent
			verif.Assert(declaredInJoinDir, names[s]+"-unsorted-input-declared-in-join-direction")
		}
	}
	// (c) the join direction is the direction of a declared input
	if dir[0] != order.Unknown || dir[1] != order.Unknown {
		verif.Reach("some-direction-declared")
		okL := dir[L] != order.Unknown && (dir[L] == order.Down) == desc
		okR := dir[1-L] != order.Unknown && (dir[1-L] == order.Down) == desc
		verif.Assert(okL || okR, "join-direction-is-a-declared-direction")
	} else {
		verif.Reach("no-direction-declared")
		// the unoptimized plan: both inputs sorted by the join
		_, lw := left.(*sort.Op)
		_, rw := right.(*sort.Op)
		verif.Assert(lw && rw, "unoptimized-plan-sorts-both-inputs")
	}
	verif.Reach("end")
}

// verif:desc C10-O4 real kernel.Builder.compile for *dag.Join (compileExpr of the keys, the style switch with its right-join swap of parents, keys and declared directions) and real join.New (choice of the merge direction, insertion of sort.New on inputs not declared ordered), inspected through read-only accessors of join.Op and sort.Op: (a) the input consumed as left/outer is parents[0], for Style "right" parents[1], and each side is keyed by the key expression that belongs to that parent; (b) an input is re-sorted iff the DAG does not declare it ordered in the direction the join compares in, the inserted sort wraps that very parent, sorts on that parent's own key, in the join's direction; (c) the join's comparison direction is the declared direction of one of its inputs; with no declaration both inputs are sorted.
// verif:bounds Style in {inner,left,right,anti} x LeftDir x RightDir each in {Unknown,Up,Down} (36 plans, Choose); keys this.lk / this.rk; no Args; two marker parents
// verif:outside executing the join (goroutines and unbuffered channels in join.puller / sort.Op); null-key conventions of sort vs join compare; join Args (cutter); the vector runtime
func VerifH_C10_O4_join_plan() {
	v10cJoinPlan()
}

// verif:desc C07-O4 same body as C10-O4: the optimizer's propagateSortKeyOp only sets Join.LeftDir/RightDir; the plan compiled from any declared directions differs from the unoptimized plan (both Unknown: both inputs re-sorted ascending on their own keys) only by omitting the sort of an input whose declaration says it is already ordered in the direction the join compares in, and the declaration stays attached to the same physical parent through the right-join swap.
// verif:bounds as VerifH_C10_O4_join_plan (36 plans)
// verif:outside whether propagateSortKeyOp's declaration is true of the data; executing the join
func VerifH_C07_O4_join_plan() {
	v10cJoinPlan()
}

func v10cJoinSortOrder() {
	zctx := zed.NewContext()
	b := &Builder{
		rctx:         runtime.NewContext(context.Background(), zctx),
		mctx:         zed.NewContext(),
		udfs:         map[string]dag.Expr{},
		compiledUDFs: map[string]*expr.UDF{},
	}
	dirs := []order.Direction{order.Unknown, order.Up, order.Down}
	dir := [2]order.Direction{dirs[verif.Choose("leftDir", 3)], dirs[verif.Choose("rightDir", 3)]}
	j := &dag.Join{
		Kind:     "Join",
		Style:    "inner",
		LeftKey:  &dag.This{Kind: "This", Path: field.Path{"lk"}},
		LeftDir:  dir[0],
		RightKey: &dag.This{Kind: "This", Path: field.Path{"rk"}},
		RightDir: dir[1],
	}
	out, err := b.compile(j, []zbuf.Puller{&v10cMarker{0}, &v10cMarker{1}})
	verif.Assume(err == nil && len(out) == 1)
	jop, ok := out[0].(*join.Op)
	verif.Assume(ok)
	left, right, _, _, _, _, compare := join.VerifPlan(jop)
	// two key values: int64 (one-byte body) or null
	nulls := verif.Choose("nulls", 3) // 0: none, 1: a is null, 2: b is null
	a, c := verif.Byte("a"), verif.Byte("b")
	verif.Assume(a != 0 && c != 0)
	ra, ka := v10cRec(zctx, nulls == 1, a)
	rb, kb := v10cRec(zctx, nulls == 2, c)
	joinSign := v10cSign(compare(ka, kb))
	verif.Observe("joinSign", joinSign)
	for s, p := range []zbuf.Puller{left, right} {
		sop, wrapped := p.(*sort.Op)
		if !wrapped {
			continue
		}
		name := []string{"left", "right"}[s]
		verif.Reach(name + "-sorted")
		sortSign := v10cSign(sort.VerifComparator(sop, ra).Compare(ra, rb))
		verif.Observe(name+"SortSign", sortSign)
		id := name + "-sort-order-is-join-order"
		if nulls != 0 {
			_, _, _, reverse := sort.VerifParts(sop)
			keys := func() []expr.SortEvaluator { _, k, _, _ := sort.VerifParts(sop); return k }()
			if len(keys) == 1 && (keys[0].Order == order.Desc) != reverse {
				id += "/null-key-descending"
			} else {
				id += "/null-key"
			}
		}
		verif.Assert(sortSign == joinSign, id)
	}
	verif.Reach("end")
}

// verif:desc C10-O4b the sort that join.New inserts and the join's own comparison must define the same order, otherwise the merge join walks an input that is not ordered the way it compares: for two records with keys a, b the sign of the inserted sort.Op's comparator (real sort.Op.setComparator: nullsMax is flipped for a descending first key, then expr.Comparator.Compare) equals the sign of join.Op.compare (expr.NewValueCompareFn(o, nullsMax=true)) on the key values.
// verif:bounds LeftDir x RightDir in {Unknown,Up,Down}^2 (Style inner); keys a, b: any non-zero int64 of magnitude <= 127 (symbolic one-byte body), or one of them null(int64)
// verif:outside inputs that are not re-sorted (their null placement is whatever the upstream order is); key types other than int64; executing the join
func VerifH_C10_O4b_join_plan_sort_order() {
	v10cJoinSortOrder()
}

// verif:desc C07-O4b same body as C10-O4b: once propagateSortKeyOp declares an input descending the join runs in descending direction and the inputs it re-sorts must be ordered exactly as it compares; the unoptimized plan (no declaration) runs ascending where sort and compare agree.
// verif:bounds as VerifH_C10_O4b_join_plan_sort_order
// verif:outside as VerifH_C10_O4b_join_plan_sort_order
func VerifH_C07_O4b_join_plan_sort_order() {
	v10cJoinSortOrder()
}
