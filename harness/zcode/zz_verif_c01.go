//go:build verif

package zcode

import (
	"github.com/brimdata/super/internal/verif"
)

// verif:desc C01-O1 counted varint codec: for every int64 i and uint64 u, Decode(Encode(x)) == x; Encode and Append variants agree; Encode never indexes past an 8-byte buffer; zero encodes to empty, not nil.
// verif:bounds all 2^64 values of i and u (64-bit bit-vectors); loops unwound by execution, at most 8 iterations each (unwind 12)
// verif:unwind 12
func VerifH_C01_O1_countedvarint() {
	i := verif.Int64("i")
	u := verif.Uint64("u")
	var b [8]byte
	n := EncodeCountedVarint(b[:], i)
	verif.Assert(n <= 8, "int-len")
	got := DecodeCountedVarint(b[:n])
	verif.Assert(got == i, "int-roundtrip")
	a := AppendCountedVarint(nil, i)
	verif.Assert(a != nil, "int-append-nonnil")
	verif.Assert(len(a) == int(n), "int-append-len")
	verif.Assert(DecodeCountedVarint(a) == i, "int-append-roundtrip")

	var c [8]byte
	m := EncodeCountedUvarint(c[:], u)
	verif.Assert(DecodeCountedUvarint(c[:m]) == u, "uint-roundtrip")
	d := AppendCountedUvarint(nil, u)
	verif.Assert(d != nil && len(d) == int(m), "uint-append-len")
	verif.Assert(DecodeCountedUvarint(d) == u, "uint-append-roundtrip")
	verif.Observe("n", n)
	verif.Observe("m", m)
	verif.Reach("end")
}
