//go:build verif

package zcode

import (
	"bytes"

	"github.com/brimdata/super/internal/verif"
)

// v01Same reports whether a and b have the same length and contents.  Cells
// that are the same term on both sides are decided without the solver; a cell
// that can differ splits the path (and fails the caller's assertion there).
func v01Same(a, b []byte) bool {
	if len(a) != len(b) {
		return false
	}
	for i := range a {
		if a[i] != b[i] {
			return false
		}
	}
	return true
}

// v01Body returns a body for length class k: nil, or a slice of the listed
// length.  Bodies up to 300 bytes are fully symbolic; longer ones are zero
// except for a symbolic first and last byte.
func v01Body(name string, n int) []byte {
	if n < 0 {
		return nil
	}
	if n <= 300 {
		return verif.BytesN(name, n)
	}
	b := make([]byte, n)
	b[0] = verif.Byte(name + ".first")
	b[n-1] = verif.Byte(name + ".last")
	return b
}

var v01O2Lens = []int{-1, 0, 1, 2, 126, 127, 128, 129, 300, 16382, 16383, 16384}

// verif:desc C01-O2 tag-length framing: for a body of any listed length (nil included) appended by zcode.Append after an arbitrary prefix and followed by a second value, Iter.Next returns exactly the body (nil stays nil, empty stays empty-non-nil), Iter.NextTagAndBody returns tag+body, DecodeTagLength gives the total encoded length, ReadTag gives -1 for null else the body length, and each leaves the iterator exactly at the following value, which decodes too.
// verif:bounds body length in {nil,0,1,2,126,127,128,129,300,16382,16383,16384} (the 1->2 and 2->3 byte tag moves); contents symbolic for lengths <= 300, first and last byte symbolic above; dst prefix 0..2 symbolic bytes; trailing value nil or one symbolic byte
// verif:outside other lengths; tags of 4 or more bytes (bodies >= 2 MiB)
// verif:unwind 16
func VerifH_C01_O2_taglength() {
	n := v01O2Lens[verif.Choose("lenclass", len(v01O2Lens))]
	body := v01Body("body", n)
	prefix := verif.Bytes("prefix", 2)
	var tail []byte
	if verif.Choose("tail", 2) == 1 {
		tail = []byte{verif.Byte("tailbyte")}
	}
	dst := Bytes(append([]byte{}, prefix...))
	buf := Append(dst, body)
	verif.Assert(len(buf) >= len(prefix) && v01Same(buf[:len(prefix)], prefix), "prefix-kept")
	encLen := len(buf) - len(prefix)
	buf = Append(buf, tail)
	enc := buf[len(prefix):]

	// DecodeTagLength: total length of the first encoded value
	verif.Assert(DecodeTagLength(enc) == encLen, "decode-tag-length")

	// Iter.Next
	it := enc.Iter()
	got := it.Next()
	if body == nil {
		verif.Assert(got == nil, "next-null-is-nil")
		verif.Reach("null")
	} else {
		verif.Assert(got != nil, "next-nonnull-not-nil")
		verif.Assert(v01Same(got, body), "next-body")
	}
	verif.Assert(len(it) == len(enc)-encLen, "next-position")
	got2 := it.Next()
	if tail == nil {
		verif.Assert(got2 == nil, "next2-null")
	} else {
		verif.Assert(len(got2) == 1 && got2[0] == tail[0], "next2-body")
	}
	verif.Assert(it.Done(), "next-done")

	// Iter.NextTagAndBody
	it = enc.Iter()
	tb := it.NextTagAndBody()
	verif.Assert(v01Same(tb, enc[:encLen]), "tagandbody")
	verif.Assert(len(it) == len(enc)-encLen, "tagandbody-position")
	// the tag+body slice is itself one value whose body is the body
	b2 := tb.Body()
	if body == nil {
		verif.Assert(b2 == nil, "tagandbody-body-null")
	} else {
		verif.Assert(b2 != nil && v01Same(b2, body), "tagandbody-body")
	}

	// Bytes.Body on the whole sequence
	b3 := enc.Body()
	verif.Assert((b3 == nil) == (body == nil) && v01Same(b3, body), "bytes-body")

	// ReadTag over an io.ByteReader
	r := bytes.NewReader(enc)
	tl, err := ReadTag(r)
	verif.Assert(err == nil, "readtag-noerr")
	if body == nil {
		verif.Assert(tl == -1, "readtag-null")
	} else {
		verif.Assert(tl == len(body), "readtag-len")
		verif.Assert(r.Len() == len(enc)-encLen+len(body), "readtag-position")
	}
	if n >= 127 && n < 16383 {
		verif.Reach("tag2")
	}
	if n >= 16383 {
		verif.Reach("tag3")
	}
	verif.Observe("encLen", encLen)
	verif.Reach("end")
}

type v01Child struct {
	body []byte // nil = null
	sub  []v01Child
	cont bool
}

// v01Build feeds a child list to the builder.
func v01Build(b *Builder, cs []v01Child) {
	for _, c := range cs {
		if c.cont {
			b.BeginContainer()
			v01Build(b, c.sub)
			b.EndContainer()
		} else {
			b.Append(c.body)
		}
	}
}

// v01Check iterates the encoded sequence and compares with the child list.
func v01Check(enc Bytes, cs []v01Child, id string) {
	it := enc.Iter()
	for _, c := range cs {
		verif.Assert(!it.Done(), id+"-short")
		if it.Done() {
			return
		}
		got := it.Next()
		if c.cont {
			verif.Assert(got != nil, id+"-container-not-null")
			v01Check(got, c.sub, id+"/sub")
		} else if c.body == nil {
			verif.Assert(got == nil, id+"-null")
		} else {
			verif.Assert(got != nil && v01Same(got, c.body), id+"-body")
		}
	}
	verif.Assert(it.Done(), id+"-done")
}

// verif:desc C01-O3 zcode.Builder: BeginContainer / Append x k / EndContainer with the container body length around the 1->2-byte tag move (EndContainer shifts the body with an overlapping append), flat, nested inside an outer container with siblings on both sides, or holding an inner container; with and without spare capacity (Grow) and after Truncate of a used builder: Bytes() iterates back to exactly the same children (null vs empty distinguished, contents equal).
// verif:bounds k in 1..3 children; first k-1 children of length in {nil,0,3}, last child 110..135 symbolic bytes (container body 111..146, both sides of 127); nesting in {flat, inside outer container with one sibling before and after, inner container as first child}; Grow in {none, 1024}; fresh or truncated builder
// verif:outside deeper nesting; TransformContainer; containers needing a 3-byte tag
// verif:unwind 16
func VerifH_C01_O3_builder() {
	k := verif.Choose("k", 3) + 1
	var cs []v01Child
	smalls := []int{-1, 0, 3}
	for i := 0; i < k-1; i++ {
		cs = append(cs, v01Child{body: v01Body("small", smalls[verif.Choose("smalllen", 3)])})
	}
	last := 110 + verif.Choose("lastlen", 26)
	cs = append(cs, v01Child{body: verif.BytesN("last", last)})
	var top []v01Child
	switch verif.Choose("nest", 3) {
	case 0:
		top = []v01Child{{cont: true, sub: cs}}
	case 1:
		top = []v01Child{{cont: true, sub: []v01Child{
			{body: []byte{verif.Byte("sib0")}},
			{cont: true, sub: cs},
			{body: nil},
			{body: []byte{verif.Byte("sib1")}},
		}}}
	case 2:
		inner := v01Child{cont: true, sub: []v01Child{{body: []byte{verif.Byte("in0"), verif.Byte("in1")}}, {body: []byte{}}}}
		top = []v01Child{{cont: true, sub: append([]v01Child{inner}, cs...)}}
	}
	b := NewBuilder()
	if verif.Choose("reuse", 2) == 1 {
		b.BeginContainer()
		b.Append(bytes.Repeat([]byte{0xff}, 140))
		b.EndContainer()
		b.Truncate()
		verif.Reach("truncated")
	}
	if verif.Choose("grow", 2) == 1 {
		b.Grow(1024)
	}
	v01Build(b, top)
	enc := b.Bytes()
	v01Check(enc, top, "top")
	body := enc.Body()
	if len(body) >= 127 {
		verif.Reach("tag2")
	} else {
		verif.Reach("tag1")
	}
	verif.Observe("len", len(enc))
	verif.Reach("end")
}
