import subprocess, sys, time
p = subprocess.Popen(['z3','-in'], stdin=subprocess.PIPE, stdout=subprocess.PIPE, text=True, bufsize=1)
ln=0
for line in open(sys.argv[1]):
    ln+=1
    p.stdin.write(line); 
    if line.startswith('(check-sat)'):
        p.stdin.flush()
        t=time.time()
        r=p.stdout.readline().strip()
        print(ln, r, '%.2fs'%(time.time()-t), flush=True)
    elif line.startswith('(get-value'):
        p.stdin.flush()
        # read balanced
        depth=0; 
        while True:
            l=p.stdout.readline()
            depth+=l.count('(')-l.count(')')
            if depth<=0: break
p.stdin.close()
