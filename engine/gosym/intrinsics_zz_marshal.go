package main

// Byte-surviving marshal tokens (file sorts last on purpose: it replaces the
// earlier identity pairs of intrinsics_c14/c18/h07 for zson ZNG marshalling).
//
// The real zson Marshal/Unmarshal are reflection-driven and cannot be
// encoded.  They are modelled as an identity pair over a per-path side table:
//
//	Marshal(v)        deep-snapshots v, stores it under a fresh id and returns a
//	                  zed.Value of type `bytes` whose 12 bytes are "VRFM"+id
//	Unmarshal(val,&t) reads the id back from the value's bytes and copies the
//	                  snapshot into t (into an interface-typed target: a fresh
//	                  pointer to the snapshot, as the real unmarshaler's
//	                  bindings produce)
//
// Because the token is ordinary value bytes it survives the zngio writer →
// storage → zngio reader path (journal entries, commit objects, branch and
// pool configs), which the earlier pointer tokens did not.  Nothing is
// claimed about the serialised form of metadata; in the native replay the
// real marshaler runs.

import (
	"fmt"
	"go/types"
	"strconv"
	"strings"

	"golang.org/x/tools/go/ssa"
)

type marshalEntry struct {
	t    types.Type // static type of the snapshot (struct type, never pointer)
	snap Value
}

const marshalMagic = "VRFM"

func init() {
	zp := h07Repo + "/zson"
	prevM := intrinsics["(*"+zp+".MarshalZNGContext).Marshal"]
	_ = prevM
	intrinsics["(*"+zp+".MarshalZNGContext).Marshal"] = func(in *Interp, fr *frame, fn *ssa.Function, a []Value) Value {
		return in.tokenMarshal(fr, a[1])
	}
	intrinsics["(*"+zp+".UnmarshalZNGContext).Unmarshal"] = func(in *Interp, fr *frame, fn *ssa.Function, a []Value) Value {
		return in.tokenUnmarshal(fr, a[1], a[2])
	}
	intrinsics[zp+".UnmarshalZNG"] = func(in *Interp, fr *frame, fn *ssa.Function, a []Value) Value {
		return in.tokenUnmarshal(fr, a[0], a[1])
	}
	intrinsics[zp+".MarshalZNG"] = func(in *Interp, fr *frame, fn *ssa.Function, a []Value) Value {
		return in.tokenMarshal(fr, a[0])
	}
	// bindings are only needed by the reflection-driven code
	intrinsics["(*"+zp+".UnmarshalZNGContext).Bind"] = func(in *Interp, fr *frame, fn *ssa.Function, a []Value) Value {
		return Iface{}
	}
	intrinsics["(*"+zp+".UnmarshalZNGContext).NamedBindings"] = func(in *Interp, fr *frame, fn *ssa.Function, a []Value) Value {
		return Iface{}
	}
	intrinsics["(*"+zp+".MarshalZNGContext).NamedBindings"] = func(in *Interp, fr *frame, fn *ssa.Function, a []Value) Value {
		return Iface{}
	}
}

func (in *Interp) tokenMarshal(fr *frame, v Value) Value {
	ifc, ok := v.(Iface)
	if !ok || ifc.t == nil {
		unsupported("marshal intrinsic: nil value")
	}
	elem := h07Elem(ifc.t)
	var sv Value
	if _, isPtr := ifc.t.Underlying().(*types.Pointer); isPtr {
		p := ifc.v.(Ptr)
		if p.isNil() {
			unsupported("marshal intrinsic: nil pointer")
		}
		sv = in.loadRaw(p)
	} else {
		sv = ifc.v
	}
	// vng metadata trees and similar are opaque to every harness: keep the old behaviour
	snap := in.marshalDeepCopy(elem, sv, map[*Value]Ptr{})
	if in.marshalTab == nil {
		in.marshalTab = map[uint64]marshalEntry{}
	}
	// equal contents marshal to equal bytes (the real marshaler is a function
	// of the value): reuse the id of a structurally equal concrete snapshot
	var id uint64
	key, keyOK := marshalKey(snap, 0)
	if keyOK {
		key = elem.String() + "|" + key
		if in.marshalByKey == nil {
			in.marshalByKey = map[string]uint64{}
		}
		id = in.marshalByKey[key]
	}
	if id == 0 {
		in.marshalSeq++
		id = in.marshalSeq
		in.marshalTab[id] = marshalEntry{t: elem, snap: snap}
		if keyOK {
			in.marshalByKey[key] = id
		}
	}
	pkg := in.prog.ImportedPackage(h07Repo)
	if pkg == nil || pkg.Var("TypeBytes") == nil {
		unsupported("marshal intrinsic: package %s not loaded", h07Repo)
	}
	typ := in.load(fr, in.globalPtr(pkg.Var("TypeBytes")))
	cells := make([]Value, 12)
	for i := 0; i < 4; i++ {
		cells[i] = in.byteC[marshalMagic[i]]
	}
	for i := 0; i < 8; i++ {
		cells[4+i] = in.byteC[byte(id>>(8*uint(7-i)))]
	}
	// zed.Value{typ Type, base *byte, len uint64}
	vt := pkg.Type("Value")
	if vt == nil {
		unsupported("marshal intrinsic: zed.Value not found")
	}
	tok := in.zero(vt.Type()).(Struct)
	tok[0] = Iface{t: types.NewPointer(pkg.Type("TypeOfBytes").Type()), v: typ}
	tok[1] = Ptr{base: cells, i: 0}
	tok[2] = in.tt.BVConst(12, 64)
	return Tuple{tok, Iface{}}
}

// marshalDeepCopy is h07DeepCopy with zed.Value leaves detached from the
// caller's byte buffers (the real marshaler copies bytes).
func (in *Interp) marshalDeepCopy(t types.Type, v Value, memo map[*Value]Ptr) Value {
	if h07IsZedValue(t) {
		return in.c14CloneZedValue(copyVal(v).(Struct))
	}
	switch u := t.Underlying().(type) {
	case *types.Pointer:
		p := v.(Ptr)
		if p.isNil() {
			return p
		}
		if p.sym != nil {
			unsupported("deep copy through a symbolic pointer")
		}
		// pointers to zed types (zed.Type implementations) keep their identity
		if n, ok := types.Unalias(u.Elem()).(*types.Named); ok && n.Obj().Pkg() != nil && n.Obj().Pkg().Path() == h07Repo && n.Obj().Name() != "Value" {
			return p
		}
		key := &p.base[p.i]
		if np, ok := memo[key]; ok {
			return np
		}
		cell := []Value{nil}
		np := Ptr{base: cell, i: 0}
		memo[key] = np
		cell[0] = in.marshalDeepCopy(u.Elem(), p.base[p.i], memo)
		return np
	case *types.Struct:
		sv := v.(Struct)
		out := make(Struct, len(sv))
		for i := range sv {
			out[i] = in.marshalDeepCopy(u.Field(i).Type(), sv[i], memo)
		}
		return out
	case *types.Array:
		av := v.(Array)
		out := make(Array, len(av))
		for i := range av {
			out[i] = in.marshalDeepCopy(u.Elem(), av[i], memo)
		}
		return out
	case *types.Slice:
		sv := v.(Slice)
		if sv == nil {
			return sv
		}
		out := make(Slice, len(sv))
		for i := range sv {
			out[i] = in.marshalDeepCopy(u.Elem(), sv[i], memo)
		}
		return out
	case *types.Interface:
		ifc := v.(Iface)
		if ifc.t == nil {
			return ifc
		}
		return Iface{t: ifc.t, v: in.marshalDeepCopy(ifc.t, ifc.v, memo)}
	case *types.Map:
		m := v.(*Map)
		if m == nil {
			return v
		}
		nm := newMap()
		for i := range m.keys {
			if m.live[i] {
				in.mapSet(nil, nm, in.marshalDeepCopy(u.Key(), m.keys[i], memo), in.marshalDeepCopy(u.Elem(), m.vals[i], memo))
			}
		}
		return nm
	}
	return copyVal(v)
}

func (in *Interp) tokenUnmarshal(fr *frame, val Value, dst Value) Value {
	tok, ok := val.(Struct)
	ifc, ok2 := dst.(Iface)
	if !ok || !ok2 || ifc.t == nil || len(tok) != 3 {
		unsupported("unmarshal intrinsic: bad arguments")
	}
	pt, ok := ifc.t.Underlying().(*types.Pointer)
	if !ok {
		unsupported("unmarshal intrinsic: target %s is not a pointer", ifc.t)
	}
	base, ok := tok[1].(Ptr)
	lt, ok3 := tok[2].(*Term)
	if !ok || !ok3 || base.isNil() || base.sym != nil || !lt.IsConst() || lt.cval != 12 {
		return in.mkError("verif: unmarshal of a value that was not produced by the marshal model")
	}
	full := base.base[:cap(base.base)]
	if base.i+12 > len(full) {
		return in.mkError("verif: unmarshal of a value that was not produced by the marshal model")
	}
	var id uint64
	for i := 0; i < 12; i++ {
		c, ok := full[base.i+i].(*Term)
		if !ok || !c.IsConst() {
			unsupported("unmarshal intrinsic: symbolic token bytes")
		}
		if i < 4 {
			if byte(c.cval) != marshalMagic[i] {
				return in.mkError("verif: unmarshal of a value that was not produced by the marshal model")
			}
		} else {
			id = id<<8 | (c.cval & 0xff)
		}
	}
	e, ok := in.marshalTab[id]
	if !ok {
		return in.mkError("verif: unmarshal of an unknown marshal token")
	}
	target := ifc.v.(Ptr)
	cp := in.marshalDeepCopy(e.t, e.snap, map[*Value]Ptr{})
	if _, isI := pt.Elem().Underlying().(*types.Interface); isI {
		// bindings yield a pointer to a fresh value of the bound type
		cell := []Value{cp}
		in.store(fr, target, Iface{t: types.NewPointer(e.t), v: Ptr{base: cell, i: 0}})
		return Iface{}
	}
	if !types.Identical(e.t, pt.Elem()) {
		return in.mkError("verif: unmarshal into " + pt.Elem().String() + " of a marshaled " + e.t.String())
	}
	in.store(fr, target, cp)
	return Iface{}
}

// marshalKey renders a fully concrete value canonically (pointers are
// followed; identity of pointers to zed types is kept by address).
func marshalKey(v Value, depth int) (string, bool) {
	if depth > 12 {
		return "", false
	}
	switch v := v.(type) {
	case *Term:
		if !v.IsConst() {
			return "", false
		}
		return fmt.Sprintf("t%d:%x", v.sort.W, v.cval), true
	case *Str:
		s, ok := strConc(v)
		return "s" + strconv.Quote(s), ok
	case Ptr:
		if v.isNil() {
			return "pnil", true
		}
		if v.sym != nil {
			return "", false
		}
		k, ok := marshalKey(v.base[v.i], depth+1)
		return "&" + k, ok
	case Iface:
		if v.t == nil {
			return "inil", true
		}
		// zed.Type implementations are canonical objects of their context:
		// identify them by address, not by content (records carry lookup maps)
		if pt, isP := v.t.(*types.Pointer); isP {
			if n, isN := types.Unalias(pt.Elem()).(*types.Named); isN && n.Obj().Pkg() != nil && n.Obj().Pkg().Path() == h07Repo && strings.HasPrefix(n.Obj().Name(), "Type") {
				if p, isPtr := v.v.(Ptr); isPtr && !p.isNil() && p.sym == nil {
					return fmt.Sprintf("ztype(%s)%p", n.Obj().Name(), &p.base[p.i]), true
				}
			}
		}
		k, ok := marshalKey(v.v, depth+1)
		return "i(" + v.t.String() + ")" + k, ok
	case Struct:
		var sb strings.Builder
		sb.WriteString("{")
		for _, f := range v {
			k, ok := marshalKey(f, depth+1)
			if !ok {
				return "", false
			}
			sb.WriteString(k + ";")
		}
		sb.WriteString("}")
		return sb.String(), true
	case Array:
		var sb strings.Builder
		sb.WriteString("[")
		for _, f := range v {
			k, ok := marshalKey(f, depth+1)
			if !ok {
				return "", false
			}
			sb.WriteString(k + ";")
		}
		sb.WriteString("]")
		return sb.String(), true
	case Slice:
		if v == nil {
			return "snil", true
		}
		var sb strings.Builder
		sb.WriteString("<")
		for _, f := range v {
			k, ok := marshalKey(f, depth+1)
			if !ok {
				return "", false
			}
			sb.WriteString(k + ";")
		}
		sb.WriteString(">")
		return sb.String(), true
	case *Map:
		if v == nil {
			return "mnil", true
		}
		return "", false
	case *Closure:
		if v == nil {
			return "fnil", true
		}
		return "", false
	case *Chan:
		return "", v == nil
	}
	return "", false
}
