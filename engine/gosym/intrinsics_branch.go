package main

// Intrinsics added for the lake.Branch / lake.Root harnesses
// (/verif/harness/lake/zz_verif_branch.go).
//
//   - sync/atomic.Value as plain memory (single-threaded model, like the other
//     atomics): the real Load/Store reinterpret the interface cell through
//     unsafe.Pointer, which the engine's typed memory cannot follow.
//     context.cancelCtx keeps its done channel in one (context.WithCancel is
//     reached through runtime.NewContext and errgroup.WithContext in
//     Branch.DeleteWhere / lake.NewWriter).

import (
	"golang.org/x/tools/go/ssa"
)

func init() {
	cell := func(in *Interp, fr *frame, v Value) Struct {
		p := v.(Ptr)
		if p.isNil() {
			in.throw(fr, "invalid memory address or nil pointer dereference")
		}
		return in.loadRaw(p).(Struct) // struct{ v any }
	}
	intrinsics["(*sync/atomic.Value).Load"] = func(in *Interp, fr *frame, fn *ssa.Function, a []Value) Value {
		return copyVal(cell(in, fr, a[0])[0])
	}
	intrinsics["(*sync/atomic.Value).Store"] = func(in *Interp, fr *frame, fn *ssa.Function, a []Value) Value {
		st := cell(in, fr, a[0])
		v := a[1].(Iface)
		if v.t == nil {
			panic(&targetPanic{v: in.mkError("sync/atomic: store of nil value into Value"), msg: "sync/atomic: store of nil value into Value"})
		}
		st[0] = v
		return nil
	}
	intrinsics["(*sync/atomic.Value).Swap"] = func(in *Interp, fr *frame, fn *ssa.Function, a []Value) Value {
		st := cell(in, fr, a[0])
		old := st[0]
		st[0] = a[1].(Iface)
		return old
	}
}
