package main

import (
	"go/token"

	"golang.org/x/tools/go/ssa"
)

// cmp.Compare[T] summarised as one non-forking term.  It is exactly the body
// of the standard function (go1.23 cmp/cmp.go): a NaN is less than any non-NaN
// and equal to a NaN; otherwise -1 if x < y, +1 if x > y, else 0.  The real
// body forks three to five ways per call, which multiplies paths in every
// comparator-driven kernel (C06 preorder/sort/merge, C16).  Native replay of
// witnesses and counterexamples still runs the real cmp.Compare.
func init() {
	intrinsics["cmp.Compare"] = func(in *Interp, fr *frame, fn *ssa.Function, a []Value) Value {
		tt := in.tt
		t := fn.Signature.Params().At(0).Type()
		lt := in.binop(fr, token.LSS, t, t, a[0], a[1]).(*Term)
		gt := in.binop(fr, token.GTR, t, t, a[0], a[1]).(*Term)
		minus1, one, zero := tt.BVConst(^uint64(0), 64), tt.BVConst(1, 64), tt.BVConst(0, 64)
		r := tt.Ite(lt, minus1, tt.Ite(gt, one, zero))
		if x, ok := a[0].(*Term); ok && x.sort.K == SFP {
			xn, yn := tt.FIsNaN(x), tt.FIsNaN(a[1].(*Term))
			r = tt.Ite(xn, tt.Ite(yn, zero, minus1), tt.Ite(yn, one, r))
		}
		return r
	}
}
