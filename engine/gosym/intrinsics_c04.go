package main

// Intrinsics for the C04 (and C02) harnesses: non-forking specification
// helpers.  A harness that states its specification with `if`/`&&`/`||` over
// symbolic data forks once per operator, and those forks multiply with the
// forks of the code under test.  The harness files of these packages define
//
// (optionally with the name prefix vC04 instead of v)
//
//	func vIte(c bool, a, b int) int { if c { return a }; return b }
//	func vAnd(a, b bool) bool       { return a && b }
//	func vOr(a, b bool) bool        { return a || b }
//	func vImp(a, b bool) bool       { return !a || b }
//
// with exactly these Go bodies (which the native replay executes); gosym maps
// them to the single terms ite/and/or, which denote the same values.

import "golang.org/x/tools/go/ssa"

func init() {
	// byteconv.UnsafeString is `*(*string)(unsafe.Pointer(&b))`: a string view
	// of the slice header.  Modelled like unsafe.String (ops.go): an aliasing
	// view of the bytes.
	if _, ok := intrinsics["github.com/brimdata/super/pkg/byteconv.UnsafeString"]; !ok {
		intrinsics["github.com/brimdata/super/pkg/byteconv.UnsafeString"] = func(in *Interp, fr *frame, fn *ssa.Function, a []Value) Value {
			b, _ := a[0].(Slice)
			if len(b) == 0 {
				return in.str("")
			}
			// the string shares the slice's bytes: later writes to them show
			// through (a lost copy of a recycled buffer is thereby visible)
			return &Str{alias: b[:len(b):len(b)]}
		}
	}
	for _, pkg := range []string{
		"github.com/brimdata/super/pkg/stringsearch",
		"github.com/brimdata/super/runtime/sam/expr",
		"github.com/brimdata/super/compiler/kernel",
		"github.com/brimdata/super/zson",
	} {
		for _, pre := range []string{".v", ".vC04"} {
			pkg := pkg + pre
			intrinsics[pkg+"Ite"] = func(in *Interp, fr *frame, fn *ssa.Function, a []Value) Value {
				return in.tt.Ite(a[0].(*Term), a[1].(*Term), a[2].(*Term))
			}
			intrinsics[pkg+"And"] = func(in *Interp, fr *frame, fn *ssa.Function, a []Value) Value {
				return in.tt.And(a[0].(*Term), a[1].(*Term))
			}
			intrinsics[pkg+"Or"] = func(in *Interp, fr *frame, fn *ssa.Function, a []Value) Value {
				return in.tt.Or(a[0].(*Term), a[1].(*Term))
			}
			intrinsics[pkg+"Imp"] = func(in *Interp, fr *frame, fn *ssa.Function, a []Value) Value {
				return in.tt.Or(in.tt.Not(a[0].(*Term)), a[1].(*Term))
			}
		}
	}
}

// symReadPeel: reading, at a symbolic index, an array whose cells were last
// written by a store through a symbolic index.  Such a store leaves every
// cell j as ite(p == j, v, old_j) (see Interp.store), so
//
//	base[idx] == ite(p == idx, v, old[idx])
//
// which is applied repeatedly; when all remaining cells are one and the same
// term, that term is the value; when they are all constants with at most 16
// exceptions from the most frequent constant, the value is that constant
// with one ite per exception.  The result is equivalent to the plain
// ite-chain of symRead over all cells (the fallback whenever the shape does
// not match), but has one ite per store instead of one per cell: the
// 256-entry bad-character table of the Boyer-Moore finders costs seconds per
// query otherwise.
func (in *Interp) symReadPeel(base []Value, idx *Term) (*Term, bool) {
	n := len(base)
	if n < 16 {
		return nil, false
	}
	cells := make([]*Term, n)
	for j, b := range base {
		t, ok := b.(*Term)
		if !ok {
			return nil, false
		}
		cells[j] = t
	}
	type layer struct{ p, v *Term }
	var layers []layer
	for depth := 0; depth < 16; depth++ {
		same := true
		for _, c := range cells[1:] {
			if c != cells[0] {
				same = false
				break
			}
		}
		if same {
			res := cells[0]
			for i := len(layers) - 1; i >= 0; i-- {
				res = in.tt.Ite(in.tt.Eq(layers[i].p, idx), layers[i].v, res)
			}
			return res, true
		}
		// all constants, few of them different from the most frequent one
		// (a table filled with a default and then written at concrete
		// indexes): default plus one ite per exception
		if res, ok := in.symReadConstTable(cells, idx); ok {
			for i := len(layers) - 1; i >= 0; i-- {
				res = in.tt.Ite(in.tt.Eq(layers[i].p, idx), layers[i].v, res)
			}
			return res, true
		}
		// find the common (p, v) of this layer
		var p, v *Term
		olds := make([]*Term, n)
		for j, c := range cells {
			cp, cv, old, ok := peelCell(c, uint64(j))
			if !ok {
				continue
			}
			if p == nil {
				p, v = cp, cv
			}
			if cp != p || cv != v {
				return nil, false
			}
			olds[j] = old
		}
		if p == nil || p.sort != idx.sort {
			return nil, false
		}
		for j, c := range cells {
			if olds[j] == nil {
				// ite(p == j, v, v) collapses to v
				if c != v {
					return nil, false
				}
				olds[j] = v
			}
		}
		layers = append(layers, layer{p, v})
		cells = olds
	}
	return nil, false
}

// peelCell matches c == ite(p == j, v, old) for the constant j.
func peelCell(c *Term, j uint64) (p, v, old *Term, ok bool) {
	if c.op != OIte || c.args[0].op != OEq {
		return
	}
	a, b := c.args[0].args[0], c.args[0].args[1]
	if a.IsConst() {
		a, b = b, a
	}
	if !b.IsConst() || b.cval != j || a.IsConst() || a.sort.K != SBV {
		return
	}
	return a, c.args[1], c.args[2], true
}

func (in *Interp) symReadConstTable(cells []*Term, idx *Term) (*Term, bool) {
	count := map[uint64]int{}
	for _, c := range cells {
		if !c.IsConst() || c.sort != cells[0].sort {
			return nil, false
		}
		count[c.cval]++
	}
	var def uint64
	best := -1
	for v, n := range count {
		if n > best || (n == best && v < def) {
			def, best = v, n
		}
	}
	if len(cells)-best > 16 {
		return nil, false
	}
	var res *Term
	for _, c := range cells {
		if c.cval == def {
			res = c
			break
		}
	}
	for j := len(cells) - 1; j >= 0; j-- {
		if c := cells[j]; c.cval != def {
			res = in.tt.Ite(in.tt.Eq(idx, in.tt.BVConst(uint64(j), idx.sort.W)), c, res)
		}
	}
	return res, true
}
