package main

// fmt.Sprintf with a ksuid.KSUID argument (C14-O11: data.SequenceURI /
// data.SeekIndexURI format object ids with "%s.zng" / "%s-seek.zng").
//
// The general Sprintf model renders an array argument as opaque text, which
// made every data object (and its seek index, after url.JoinPath rejected the
// literal "%s") map to one storage path.  A KSUID argument is rendered by
// running the real (ksuid.KSUID).String from source, as fmt does through the
// Stringer interface; everything else is delegated to the previous model.

import (
	"go/types"

	"golang.org/x/tools/go/ssa"
)

func init() {
	prev := intrinsics["fmt.Sprintf"]
	intrinsics["fmt.Sprintf"] = func(in *Interp, fr *frame, fn *ssa.Function, a []Value) Value {
		args, ok := a[1].(Slice)
		if !ok {
			return prev(in, fr, fn, a)
		}
		var out Slice
		for i, arg := range args {
			ifc, ok := arg.(Iface)
			if !ok || ifc.t == nil || !isKsuidType(ifc.t) {
				continue
			}
			s, ok := in.callMethod(fr, ifc, "String")
			if !ok {
				continue
			}
			sv, ok := s.(*Str)
			if !ok {
				continue
			}
			if out == nil {
				out = append(Slice{}, args...)
			}
			out[i] = Iface{t: types.Typ[types.String], v: sv}
		}
		if out == nil {
			return prev(in, fr, fn, a)
		}
		return prev(in, fr, fn, []Value{a[0], out})
	}
}

func isKsuidType(t types.Type) bool {
	n, ok := types.Unalias(t).(*types.Named)
	if !ok {
		return false
	}
	o := n.Obj()
	return o.Name() == "KSUID" && o.Pkg() != nil && o.Pkg().Path() == "github.com/segmentio/ksuid"
}
