package main

// Intrinsics added for the C05 / C11-O2 harnesses (package zed).
//
//   - runtime/debug.Stack: returns an empty, non-nil byte slice.
//     zed.Value.Validate formats the stack into the text of the error it
//     returns after recovering a panic; the text is irrelevant (only err != nil
//     is), and the real body needs runtime.getg.

import "golang.org/x/tools/go/ssa"

func init() {
	intrinsics["runtime/debug.Stack"] = func(in *Interp, fr *frame, fn *ssa.Function, a []Value) Value {
		return make(Slice, 0)
	}
}
