package main

// Intrinsics: harness primitives (verif.*), environment stubs and
// replacements for functions without a Go body.

import (
	"fmt"
	"go/types"
	"strings"

	"golang.org/x/tools/go/ssa"
)

type intrinsic func(in *Interp, fr *frame, fn *ssa.Function, args []Value) Value

const verifPkg = "github.com/brimdata/super/internal/verif"

var intrinsics map[string]intrinsic

func init() {
	intrinsics = map[string]intrinsic{
		// ---- harness primitives ----
		verifPkg + ".Uint64":  func(in *Interp, fr *frame, fn *ssa.Function, a []Value) Value { return in.input(a[0], "u64", 64) },
		verifPkg + ".Int64":   func(in *Interp, fr *frame, fn *ssa.Function, a []Value) Value { return in.input(a[0], "i64", 64) },
		verifPkg + ".Int":     func(in *Interp, fr *frame, fn *ssa.Function, a []Value) Value { return in.input(a[0], "i64", 64) },
		verifPkg + ".Uint32":  func(in *Interp, fr *frame, fn *ssa.Function, a []Value) Value { return in.input(a[0], "u32", 32) },
		verifPkg + ".Int32":   func(in *Interp, fr *frame, fn *ssa.Function, a []Value) Value { return in.input(a[0], "i32", 32) },
		verifPkg + ".Uint16":  func(in *Interp, fr *frame, fn *ssa.Function, a []Value) Value { return in.input(a[0], "u16", 16) },
		verifPkg + ".Int16":   func(in *Interp, fr *frame, fn *ssa.Function, a []Value) Value { return in.input(a[0], "i16", 16) },
		verifPkg + ".Uint8":   func(in *Interp, fr *frame, fn *ssa.Function, a []Value) Value { return in.input(a[0], "u8", 8) },
		verifPkg + ".Int8":    func(in *Interp, fr *frame, fn *ssa.Function, a []Value) Value { return in.input(a[0], "i8", 8) },
		verifPkg + ".Byte":    func(in *Interp, fr *frame, fn *ssa.Function, a []Value) Value { return in.input(a[0], "u8", 8) },
		verifPkg + ".Bool":    func(in *Interp, fr *frame, fn *ssa.Function, a []Value) Value { return in.inputBool(a[0]) },
		verifPkg + ".Float64": func(in *Interp, fr *frame, fn *ssa.Function, a []Value) Value { return in.tt.BitsToFP(in.input(a[0], "f64", 64)) },
		verifPkg + ".Float32": func(in *Interp, fr *frame, fn *ssa.Function, a []Value) Value { return in.tt.BitsToFP(in.input(a[0], "f32", 32)) },
		verifPkg + ".Choose": func(in *Interp, fr *frame, fn *ssa.Function, a []Value) Value {
			n := int(a[1].(*Term).cval)
			k := in.choose(n)
			in.inputs = append(in.inputs, Input{Name: in.inputName(a[0]), Kind: "choose", Conc: uint64(k)})
			return in.tt.BVConst(uint64(k), 64)
		},
		verifPkg + ".Range": func(in *Interp, fr *frame, fn *ssa.Function, a []Value) Value {
			// symbolic int in [lo,hi]
			lo, hi := a[1].(*Term), a[2].(*Term)
			v := in.input(a[0], "i64", 64)
			in.assume(in.tt.And(in.tt.CmpBV(OSle, lo, v), in.tt.CmpBV(OSle, v, hi)))
			return v
		},
		verifPkg + ".BytesN": func(in *Interp, fr *frame, fn *ssa.Function, a []Value) Value {
			n := int(a[1].(*Term).cval)
			return in.inputBytes(in.inputName(a[0]), n)
		},
		verifPkg + ".Bytes": func(in *Interp, fr *frame, fn *ssa.Function, a []Value) Value {
			max := int(a[1].(*Term).cval)
			name := in.inputName(a[0])
			n := in.choose(max + 1)
			in.inputs = append(in.inputs, Input{Name: name + ".len", Kind: "choose", Conc: uint64(n)})
			return in.inputBytes(name, n)
		},
		verifPkg + ".StringN": func(in *Interp, fr *frame, fn *ssa.Function, a []Value) Value {
			n := int(a[1].(*Term).cval)
			return in.bytesToStr(in.inputBytes(in.inputName(a[0]), n))
		},
		verifPkg + ".String": func(in *Interp, fr *frame, fn *ssa.Function, a []Value) Value {
			max := int(a[1].(*Term).cval)
			name := in.inputName(a[0])
			n := in.choose(max + 1)
			in.inputs = append(in.inputs, Input{Name: name + ".len", Kind: "choose", Conc: uint64(n)})
			return in.bytesToStr(in.inputBytes(name, n))
		},
		verifPkg + ".Assume": func(in *Interp, fr *frame, fn *ssa.Function, a []Value) Value {
			in.assume(a[0].(*Term))
			return nil
		},
		verifPkg + ".Assert": func(in *Interp, fr *frame, fn *ssa.Function, a []Value) Value {
			in.assertion(fr, a[0].(*Term), in.inputName(a[1]))
			return nil
		},
		verifPkg + ".Reach": func(in *Interp, fr *frame, fn *ssa.Function, a []Value) Value {
			in.reached[in.inputName(a[0])] = true
			return nil
		},
		verifPkg + ".Observe": func(in *Interp, fr *frame, fn *ssa.Function, a []Value) Value {
			ifc := a[1].(Iface)
			if ifc.t != nil {
				in.pendingObs = append(in.pendingObs, pendingObs{name: in.inputName(a[0]), t: ifc.t, v: ifc.v})
			}
			return nil
		},
		verifPkg + ".Thorough": func(in *Interp, fr *frame, fn *ssa.Function, a []Value) Value {
			return in.tt.Bool(in.thorough)
		},
		verifPkg + ".Unwind": func(in *Interp, fr *frame, fn *ssa.Function, a []Value) Value {
			in.unwindOverride = int(a[0].(*Term).cval)
			return nil
		},
		verifPkg + ".ArbitraryMapOrder": func(in *Interp, fr *frame, fn *ssa.Function, a []Value) Value {
			in.mapOrderArbitrary = a[0].(*Term).cval == 1
			return nil
		},
		verifPkg + ".MergeInt":     mergeIntrinsic,
		verifPkg + ".MergeInt64":   mergeIntrinsic,
		verifPkg + ".MergeUint64":  mergeIntrinsic,
		verifPkg + ".MergeBool":    mergeIntrinsic,
		verifPkg + ".MergeFloat64": mergeIntrinsic,
		verifPkg + ".Symbolic": func(in *Interp, fr *frame, fn *ssa.Function, a []Value) Value {
			return in.tt.Bool(true)
		},
		verifPkg + ".IsConcrete": func(in *Interp, fr *frame, fn *ssa.Function, a []Value) Value {
			return in.tt.Bool(true)
		},

		// ---- sync: single-threaded model ----
		"(*sync.Mutex).Lock":      nop,
		"(*sync.Mutex).Unlock":    nop,
		"(*sync.Mutex).TryLock":   retTrue,
		"(*sync.RWMutex).Lock":    nop,
		"(*sync.RWMutex).Unlock":  nop,
		"(*sync.RWMutex).RLock":   nop,
		"(*sync.RWMutex).RUnlock": nop,
		"(*sync.WaitGroup).Add":   nop,
		"(*sync.WaitGroup).Done":  nop,
		"(*sync.WaitGroup).Wait":  nop,
		"(*sync.Once).Do": func(in *Interp, fr *frame, fn *ssa.Function, a []Value) Value {
			k, _ := concKey(a[0])
			if in.onceDone[k] {
				in.raceAcquire("once:" + k)
				return nil
			}
			in.onceDone[k] = true
			in.callValue(fr, a[1], nil)
			in.raceRelease("once:" + k)
			return nil
		},
		"(*sync.Pool).Get": func(in *Interp, fr *frame, fn *ssa.Function, a []Value) Value {
			p := a[0].(Ptr)
			// single-threaded pool: the most recently Put object is handed out
			// again (what a goroutine normally observes), so that a buffer which is
			// still referenced after it was freed is seen being reused
			if k, ok := concKey(p); ok {
				if st := in.pools[k]; len(st) > 0 {
					v := st[len(st)-1]
					in.pools[k] = st[:len(st)-1]
					// the pool orders the Put of THIS object before its Get,
					// nothing else
					if ik, ok := concKey(v); ok {
						in.raceAcquire("poolitem:" + ik)
					}
					return v
				}
			}
			st := in.loadRaw(p).(Struct)
			// last field is New func() any
			if nf, ok := st[len(st)-1].(*Closure); ok && nf != nil {
				return in.callValue(fr, nf, nil)
			}
			return Iface{}
		},
		"(*sync.Pool).Put": func(in *Interp, fr *frame, fn *ssa.Function, a []Value) Value {
			if k, ok := concKey(a[0].(Ptr)); ok {
				if ik, ok := concKey(a[1]); ok {
					in.raceRelease("poolitem:" + ik)
				}
				if in.pools == nil {
					in.pools = map[string][]Value{}
				}
				if ifc, isI := a[1].(Iface); isI && ifc.t != nil {
					in.pools[k] = append(in.pools[k], a[1])
				}
			}
			return nil
		},
		"(*sync.Cond).Wait": func(in *Interp, fr *frame, fn *ssa.Function, a []Value) Value {
			unsupported("sync.Cond.Wait (concurrency is outside the model)")
			return nil
		},
		"(*sync.Cond).Signal":    nop,
		"(*sync.Cond).Broadcast": nop,

		// ---- sync/atomic as plain memory ----
		"sync/atomic.LoadInt32":    atomicLoad,
		"sync/atomic.LoadInt64":    atomicLoad,
		"sync/atomic.LoadUint32":   atomicLoad,
		"sync/atomic.LoadUint64":   atomicLoad,
		"sync/atomic.LoadUintptr":  atomicLoad,
		"sync/atomic.LoadPointer":  atomicLoad,
		"sync/atomic.StoreInt32":   atomicStore,
		"sync/atomic.StoreInt64":   atomicStore,
		"sync/atomic.StoreUint32":  atomicStore,
		"sync/atomic.StoreUint64":  atomicStore,
		"sync/atomic.StoreUintptr": atomicStore,
		"sync/atomic.StorePointer": atomicStore,
		"sync/atomic.AddInt32":     atomicAdd,
		"sync/atomic.AddInt64":     atomicAdd,
		"sync/atomic.AddUint32":    atomicAdd,
		"sync/atomic.AddUint64":    atomicAdd,
		"sync/atomic.AddUintptr":   atomicAdd,
		"sync/atomic.SwapInt32":    atomicSwap,
		"sync/atomic.SwapInt64":    atomicSwap,
		"sync/atomic.SwapUint32":   atomicSwap,
		"sync/atomic.SwapUint64":   atomicSwap,
		"sync/atomic.SwapPointer":  atomicSwap,
		"sync/atomic.CompareAndSwapInt32":   atomicCAS,
		"sync/atomic.CompareAndSwapInt64":   atomicCAS,
		"sync/atomic.CompareAndSwapUint32":  atomicCAS,
		"sync/atomic.CompareAndSwapUint64":  atomicCAS,
		"sync/atomic.CompareAndSwapPointer": atomicCAS,

		// ---- math ----
		"math.Float64bits": func(in *Interp, fr *frame, fn *ssa.Function, a []Value) Value {
			return in.fpBits(a[0].(*Term))
		},
		"math.Float32bits": func(in *Interp, fr *frame, fn *ssa.Function, a []Value) Value {
			return in.fpBits(a[0].(*Term))
		},
		"math.Float64frombits": func(in *Interp, fr *frame, fn *ssa.Function, a []Value) Value {
			return in.tt.BitsToFP(a[0].(*Term))
		},
		"math.Float32frombits": func(in *Interp, fr *frame, fn *ssa.Function, a []Value) Value {
			return in.tt.BitsToFP(a[0].(*Term))
		},
		"math.archFloor": callPure("math", "floor"),
		"math.archCeil":  callPure("math", "ceil"),
		"math.archTrunc": callPure("math", "trunc"),

		// ---- internal/abi, runtime ----
		"internal/abi.NoEscape":  ident,
		"strings.noescape":       ident,
		"internal/abi.Escape":    ident,
		"runtime.KeepAlive":      nop,
		"runtime.GC":             nop,
		"runtime.Gosched":        nop,
		"runtime.SetFinalizer":   nop,
		"runtime.GOMAXPROCS":     func(in *Interp, fr *frame, fn *ssa.Function, a []Value) Value { return in.tt.BVConst(1, 64) },
		"runtime.NumCPU":         func(in *Interp, fr *frame, fn *ssa.Function, a []Value) Value { return in.tt.BVConst(1, 64) },
		"internal/race.Enabled":  nop,
		"internal/bytealg.MakeNoZero": func(in *Interp, fr *frame, fn *ssa.Function, a []Value) Value {
			n := int(in.concInt(a[0], "MakeNoZero"))
			s := make(Slice, n)
			for i := range s {
				s[i] = in.byteC[0]
			}
			return s
		},
		"internal/bytealg.IndexByte": func(in *Interp, fr *frame, fn *ssa.Function, a []Value) Value {
			return in.indexByte(fr, a[0].(Slice), a[1].(*Term))
		},
		"internal/bytealg.IndexByteString": func(in *Interp, fr *frame, fn *ssa.Function, a []Value) Value {
			return in.indexByte(fr, in.strToBytes(a[0].(*Str)), a[1].(*Term))
		},
		"internal/bytealg.Compare": func(in *Interp, fr *frame, fn *ssa.Function, a []Value) Value {
			return in.compareCells(in.sliceCells(a[0].(Slice)), in.sliceCells(a[1].(Slice)))
		},
		"internal/bytealg.CompareString": func(in *Interp, fr *frame, fn *ssa.Function, a []Value) Value {
			return in.compareCells(in.cells(a[0].(*Str)), in.cells(a[1].(*Str)))
		},
		"strings.Compare": func(in *Interp, fr *frame, fn *ssa.Function, a []Value) Value {
			return in.compareCells(in.cells(a[0].(*Str)), in.cells(a[1].(*Str)))
		},
		"bytes.Compare": func(in *Interp, fr *frame, fn *ssa.Function, a []Value) Value {
			return in.compareCells(in.sliceCells(a[0].(Slice)), in.sliceCells(a[1].(Slice)))
		},
		"internal/bytealg.Count": func(in *Interp, fr *frame, fn *ssa.Function, a []Value) Value {
			return in.countByte(in.sliceCells(a[0].(Slice)), a[1].(*Term))
		},
		"internal/bytealg.CountString": func(in *Interp, fr *frame, fn *ssa.Function, a []Value) Value {
			return in.countByte(in.cells(a[0].(*Str)), a[1].(*Term))
		},

		// ---- formatting, logging: opaque ----
		"fmt.Sprintf":  fmtSprintf,
		"fmt.Sprint":   fmtSprint,
		"fmt.Sprintln": fmtSprint,
		"fmt.Errorf":   fmtErrorf,
		"fmt.Fprintf":  fmtFprintf,
		"fmt.Fprint":   fmtFprint,
		"fmt.Fprintln": fmtFprint,
		"fmt.Printf":   nopTuple2,
		"fmt.Println":  nopTuple2,
		"fmt.Print":    nopTuple2,
		"log.Printf":   nop,
		"log.Println":  nop,
		"log.Print":    nop,

		// ---- errors ----
		"errors.Is": errorsIs,
		"errors.As": errorsAs,

		// ---- time ----
		"time.Now": func(in *Interp, fr *frame, fn *ssa.Function, a []Value) Value {
			return in.zero(fn.Signature.Results().At(0).Type())
		},
		"time.Sleep": nop,
		"time.Since": func(in *Interp, fr *frame, fn *ssa.Function, a []Value) Value { return in.tt.BVConst(0, 64) },

		// ---- LZ4: contract stubs ----
		"github.com/pierrec/lz4/v4.UncompressBlock": func(in *Interp, fr *frame, fn *ssa.Function, a []Value) Value {
			// contract: error, or n <= len(dst) bytes written.  Explored: error,
			// n == len(dst), n == len(dst)-1; written contents are left as they
			// are (zero) — decoding of frame contents is explored through
			// uncompressed frames, which reach the same decoder.
			dst := a[1].(Slice)
			k := in.choose(3)
			switch k {
			case 0:
				return Tuple{in.tt.BVConst(uint64(len(dst)), 64), Iface{}}
			case 1:
				return Tuple{in.tt.BVConst(0, 64), in.mkError("lz4: invalid source or destination buffer too short")}
			}
			n := len(dst) - 1
			if n < 0 {
				n = 0
			}
			return Tuple{in.tt.BVConst(uint64(n), 64), Iface{}}
		},

		// ---- sorting ----
		"sort.Slice":       sortSlice,
		"sort.SliceStable": sortSlice,
	}
}

func nop(in *Interp, fr *frame, fn *ssa.Function, a []Value) Value { return nil }
func nopTuple2(in *Interp, fr *frame, fn *ssa.Function, a []Value) Value {
	return Tuple{in.tt.BVConst(0, 64), Iface{}}
}
func retTrue(in *Interp, fr *frame, fn *ssa.Function, a []Value) Value { return in.tt.Bool(true) }
func ident(in *Interp, fr *frame, fn *ssa.Function, a []Value) Value   { return a[0] }

func callPure(pkg, name string) intrinsic {
	return func(in *Interp, fr *frame, fn *ssa.Function, a []Value) Value {
		f := in.findFunc(pkg, name)
		if f == nil {
			unsupported("%s.%s not found", pkg, name)
		}
		return in.callSSA(fr, f, a, nil)
	}
}

func lookupIntrinsic(fn *ssa.Function, name string) intrinsic {
	if i, ok := intrinsics[name]; ok {
		return i
	}
	if o := fn.Origin(); o != nil {
		if i, ok := intrinsics[o.String()]; ok {
			return i
		}
	}
	// zap logging and similar: any method on these packages is a no-op
	if fn.Pkg != nil {
		p := fn.Pkg.Pkg.Path()
		if strings.HasPrefix(p, "go.uber.org/zap") {
			return zapStub
		}
	} else if fn.Signature.Recv() != nil {
		if strings.Contains(name, "go.uber.org/zap") {
			return zapStub
		}
	}
	return nil
}

func zapStub(in *Interp, fr *frame, fn *ssa.Function, a []Value) Value {
	res := fn.Signature.Results()
	switch res.Len() {
	case 0:
		return nil
	case 1:
		return in.zero(res.At(0).Type())
	}
	return in.zero(res)
}

// ---- inputs ----

func (in *Interp) inputName(v Value) string {
	s, ok := strConc(v.(*Str))
	if !ok {
		unsupported("symbolic name passed to verif primitive")
	}
	return s
}

func (in *Interp) freshName(base string) string {
	k := in.inputSeq[base]
	in.inputSeq[base] = k + 1
	if k == 0 {
		return in.harness + "!" + base
	}
	return fmt.Sprintf("%s!%s#%d", in.harness, base, k)
}

func (in *Interp) input(name Value, kind string, w int) *Term {
	n := in.inputName(name)
	v := in.newVar(in.freshName(n), BV(w))
	in.inputs = append(in.inputs, Input{Name: n, Kind: kind, Term: v})
	return v
}

func (in *Interp) inputBool(name Value) *Term {
	n := in.inputName(name)
	v := in.newVar(in.freshName(n), BoolSort)
	in.inputs = append(in.inputs, Input{Name: n, Kind: "bool", Term: v})
	return v
}

func (in *Interp) inputBytes(name string, n int) Slice {
	s := make(Slice, n)
	for i := 0; i < n; i++ {
		en := fmt.Sprintf("%s[%d]", name, i)
		v := in.newVar(in.freshName(en), BV(8))
		in.inputs = append(in.inputs, Input{Name: en, Kind: "u8", Term: v})
		s[i] = v
	}
	return s
}

func (in *Interp) modelInputs(m map[string]uint64) []ReplayInput {
	var res []ReplayInput
	for _, inp := range in.inputs {
		ri := ReplayInput{Name: inp.Name, Kind: inp.Kind}
		if inp.Term == nil {
			ri.Value = inp.Conc
		} else {
			ri.Value = m[inp.Term.name]
		}
		res = append(res, ri)
	}
	return res
}

// assertion checks c under the current path condition.
func (in *Interp) assertion(fr *frame, c *Term, id string) {
	if c.IsTrue() {
		in.nTrivial++
		return
	}
	neg := in.tt.Not(c)
	var model map[string]uint64
	violated := false
	if c.IsFalse() {
		if !in.ensureModel() {
			panic(pathEnd{"infeasible", "pc unsat at assert"})
		}
		violated, model = true, in.model
	} else if v, ok := in.evalModel(c); ok && v == 0 {
		violated, model = true, in.model
	} else {
		res, m := in.check(neg)
		if res == "sat" {
			violated, model = true, m
		}
	}
	if violated {
		if in.onViolation != nil {
			st := ""
			if fr != nil {
				st = fr.stack()
			}
			in.onViolation(Violation{Harness: in.harness, ID: id, Msg: "assertion " + id + " can fail", Inputs: in.modelInputs(model), Stack: st})
		}
		// continue on the side where the assertion holds
		in.assume(c)
	}
}

// ---- helpers for byte algorithms ----

func (in *Interp) sliceCells(s Slice) []*Term {
	c := make([]*Term, len(s))
	for i, v := range s {
		c[i] = v.(*Term)
	}
	return c
}

func (in *Interp) indexByte(fr *frame, b Slice, c *Term) Value {
	in.curFrame = fr
	for i, v := range b {
		if in.decide(in.tt.Eq(v.(*Term), c)) {
			return in.tt.BVConst(uint64(i), 64)
		}
	}
	return in.tt.BVConst(^uint64(0), 64)
}

func (in *Interp) compareCells(x, y []*Term) Value {
	tt := in.tt
	lt := in.cellsLess(x, y, false)
	gt := in.cellsLess(y, x, false)
	return tt.Ite(lt, tt.BVConst(^uint64(0), 64), tt.Ite(gt, tt.BVConst(1, 64), tt.BVConst(0, 64)))
}

func (in *Interp) countByte(x []*Term, c *Term) Value {
	tt := in.tt
	r := tt.BVConst(0, 64)
	for _, v := range x {
		r = tt.BinBV(OAdd, r, tt.Ite(tt.Eq(v, c), tt.BVConst(1, 64), tt.BVConst(0, 64)))
	}
	return r
}

func (in *Interp) fpBits(f *Term) *Term {
	if f.IsConst() {
		return in.tt.BVConst(f.cval, f.sort.W)
	}
	if f.op == OBitsF {
		return f.args[0]
	}
	// fresh bits constrained to denote f (NaN payload unconstrained); the
	// same term gets the same bits on one path (Float64bits is a function)
	if v, ok := in.fpBitsMemo[f]; ok {
		return v
	}
	v := in.newVar(in.freshName(fmt.Sprintf("fpbits%d", f.sort.W)), BV(f.sort.W)) // width in the name: the same name must not be declared with two sorts
	c := in.tt.Eq(in.tt.BitsToFP(v), f)
	if bits, ok := in.evalModel(f); ok {
		// keep the current model alive: extend it (copy: the map may be
		// shared with queued forks) with the bits f has under it
		m := make(map[string]uint64, len(in.model)+1)
		for k, x := range in.model {
			m[k] = x
		}
		m[v.name] = bits
		in.model = m
		in.addPC(c)
	} else {
		in.addPCNoEval(c)
	}
	if in.fpBitsMemo == nil {
		in.fpBitsMemo = map[*Term]*Term{}
	}
	in.fpBitsMemo[f] = v
	return v
}

// ---- atomics ----

func atomicLoad(in *Interp, fr *frame, fn *ssa.Function, a []Value) Value {
	in.schedPoint(fr)
	defer in.raceAtomic(a[0])()
	return in.load(fr, a[0].(Ptr))
}
func atomicStore(in *Interp, fr *frame, fn *ssa.Function, a []Value) Value {
	in.schedPoint(fr)
	defer in.raceAtomic(a[0])()
	in.store(fr, a[0], a[1])
	return nil
}
func atomicAdd(in *Interp, fr *frame, fn *ssa.Function, a []Value) Value {
	in.schedPoint(fr)
	defer in.raceAtomic(a[0])()
	p := a[0].(Ptr)
	nv := in.tt.BinBV(OAdd, in.load(fr, p).(*Term), a[1].(*Term))
	in.store(fr, p, nv)
	return nv
}
func atomicSwap(in *Interp, fr *frame, fn *ssa.Function, a []Value) Value {
	in.schedPoint(fr)
	defer in.raceAtomic(a[0])()
	p := a[0].(Ptr)
	old := in.load(fr, p)
	in.store(fr, p, a[1])
	return old
}
func atomicCAS(in *Interp, fr *frame, fn *ssa.Function, a []Value) Value {
	in.schedPoint(fr)
	defer in.raceAtomic(a[0])()
	p := a[0].(Ptr)
	old := in.load(fr, p)
	var eq *Term
	switch o := old.(type) {
	case *Term:
		eq = in.tt.Eq(o, a[1].(*Term))
	default:
		eq = in.eqVal(nil, old, a[1])
	}
	in.curFrame = fr
	if in.decide(eq) {
		in.store(fr, p, a[2])
		return in.tt.Bool(true)
	}
	return in.tt.Bool(false)
}

// ---- fmt ----

// fmtString renders a best-effort concrete message; symbolic parts are "?".
func (in *Interp) fmtArgs(format string, args Slice) string {
	var sb strings.Builder
	sb.WriteString(format)
	for _, a := range args {
		sb.WriteString(" ")
		sb.WriteString(in.showVal(a, 0))
	}
	return sb.String()
}

func (in *Interp) showVal(v Value, depth int) string {
	if depth > 3 {
		return "…"
	}
	switch v := v.(type) {
	case *Term:
		if v.IsConst() {
			if v.sort.K == SFP {
				return fmt.Sprint(fpVal(v))
			}
			return fmt.Sprint(v.cval)
		}
		return "?"
	case *Str:
		if s, ok := strConc(v); ok {
			return s
		}
		return "?"
	case Iface:
		if v.t == nil {
			return "<nil>"
		}
		// error values built by the engine / errors.New
		if p, ok := v.v.(Ptr); ok && !p.isNil() && p.sym == nil {
			if st, ok := p.base[p.i].(Struct); ok && len(st) >= 1 {
				if s, ok := st[0].(*Str); ok {
					if c, ok := strConc(s); ok {
						return c
					}
				}
			}
		}
		return in.showVal(v.v, depth+1)
	}
	return fmt.Sprintf("<%T>", v)
}

func fmtSprintf(in *Interp, fr *frame, fn *ssa.Function, a []Value) Value {
	f, _ := strConc(a[0].(*Str))
	return in.str(in.fmtArgs(f, a[1].(Slice)))
}

func fmtSprint(in *Interp, fr *frame, fn *ssa.Function, a []Value) Value {
	return in.str(in.fmtArgs("", a[0].(Slice)))
}

func fmtErrorf(in *Interp, fr *frame, fn *ssa.Function, a []Value) Value {
	f, _ := strConc(a[0].(*Str))
	args := a[1].(Slice)
	msg := in.fmtArgs(f, args)
	// %w: wrap the first error argument
	if strings.Contains(f, "%w") {
		for _, arg := range args {
			if ifc, ok := arg.(Iface); ok && ifc.t != nil {
				if types.Implements(ifc.t, errorIface()) {
					if pkg := in.prog.ImportedPackage("fmt"); pkg != nil {
						if wt := pkg.Type("wrapError"); wt != nil {
							cell := []Value{Struct{in.str(msg), ifc}}
							return Iface{t: types.NewPointer(wt.Type()), v: Ptr{base: cell}}
						}
					}
				}
			}
		}
	}
	return in.mkError(msg)
}

func errorIface() *types.Interface {
	return types.Universe.Lookup("error").Type().Underlying().(*types.Interface)
}

// writeTo calls w.Write(p) on an io.Writer interface value.
func (in *Interp) writeTo(fr *frame, w Iface, p Slice) Value {
	if w.t == nil {
		in.throw(fr, "nil io.Writer")
	}
	ms := in.prog.MethodSets.MethodSet(w.t)
	sel := ms.Lookup(nil, "Write")
	if sel == nil {
		unsupported("Write method not found on %s", w.t)
	}
	f := in.prog.MethodValue(sel)
	return in.callSSA(fr, f, []Value{w.v, p}, nil)
}

func fmtFprintf(in *Interp, fr *frame, fn *ssa.Function, a []Value) Value {
	f, _ := strConc(a[1].(*Str))
	s := in.str(in.fmtArgs(f, a[2].(Slice)))
	return in.writeTo(fr, a[0].(Iface), in.strToBytes(s))
}

func fmtFprint(in *Interp, fr *frame, fn *ssa.Function, a []Value) Value {
	s := in.str(in.fmtArgs("", a[1].(Slice)))
	return in.writeTo(fr, a[0].(Iface), in.strToBytes(s))
}

// ---- errors.Is / errors.As without reflection ----

func (in *Interp) callMethod(fr *frame, recv Iface, name string, args ...Value) (Value, bool) {
	if recv.t == nil {
		return nil, false
	}
	ms := in.prog.MethodSets.MethodSet(recv.t)
	for i := 0; i < ms.Len(); i++ {
		sel := ms.At(i)
		if sel.Obj().Name() == name {
			f := in.prog.MethodValue(sel)
			if f == nil {
				return nil, false
			}
			return in.callSSA(fr, f, append([]Value{recv.v}, args...), nil), true
		}
	}
	return nil, false
}

func errorsIs(in *Interp, fr *frame, fn *ssa.Function, a []Value) Value {
	err, target := a[0].(Iface), a[1].(Iface)
	if err.t == nil || target.t == nil {
		return in.tt.Bool(err.t == nil && target.t == nil)
	}
	return in.tt.Bool(in.errIs(fr, err, target, 0))
}

func (in *Interp) errIs(fr *frame, err, target Iface, depth int) bool {
	if depth > 20 {
		return false
	}
	for {
		if types.Comparable(target.t) && err.t != nil && types.Identical(err.t, target.t) {
			in.curFrame = fr
			if in.decide(in.eqVal(err.t, err.v, target.v)) {
				return true
			}
		}
		if r, ok := in.callMethodSig(fr, err, "Is", target); ok {
			in.curFrame = fr
			if in.decide(r.(*Term)) {
				return true
			}
		}
		u, ok := in.callMethodSig(fr, err, "Unwrap")
		if !ok {
			return false
		}
		switch u := u.(type) {
		case Iface:
			if u.t == nil {
				return false
			}
			err = u
		case Slice:
			for _, e := range u {
				if ei := e.(Iface); ei.t != nil && in.errIs(fr, ei, target, depth+1) {
					return true
				}
			}
			return false
		default:
			return false
		}
	}
}

func (in *Interp) callMethodSig(fr *frame, recv Iface, name string, args ...Value) (Value, bool) {
	return in.callMethod(fr, recv, name, args...)
}

func errorsAs(in *Interp, fr *frame, fn *ssa.Function, a []Value) Value {
	err := a[0].(Iface)
	target := a[1].(Iface)
	if target.t == nil {
		in.throw(fr, "errors: target cannot be nil")
	}
	pt, ok := target.t.Underlying().(*types.Pointer)
	if !ok {
		in.throw(fr, "errors: target must be a non-nil pointer")
	}
	want := pt.Elem()
	tp := target.v.(Ptr)
	for depth := 0; err.t != nil && depth < 20; depth++ {
		if wi, isI := want.Underlying().(*types.Interface); isI {
			if in.implements(err.t, wi) {
				in.store(fr, tp, err)
				return in.tt.Bool(true)
			}
		} else if types.Identical(err.t, want) {
			in.store(fr, tp, err.v)
			return in.tt.Bool(true)
		}
		u, ok := in.callMethod(fr, err, "Unwrap")
		if !ok {
			break
		}
		ui, isI := u.(Iface)
		if !isI {
			break
		}
		err = ui
	}
	return in.tt.Bool(false)
}

// ---- sort.Slice: stable insertion sort driven by the real less closure ----

func sortSlice(in *Interp, fr *frame, fn *ssa.Function, a []Value) Value {
	ifc := a[0].(Iface)
	s, ok := ifc.v.(Slice)
	if !ok {
		unsupported("sort.Slice of %T", ifc.v)
	}
	less := a[1]
	n := len(s)
	// insertion sort calling less(i, j) on current positions
	for i := 1; i < n; i++ {
		for j := i; j > 0; j-- {
			r := in.callValue(fr, less, []Value{in.tt.BVConst(uint64(j), 64), in.tt.BVConst(uint64(j-1), 64)})
			in.curFrame = fr
			if !in.decide(r.(*Term)) {
				break
			}
			s[j], s[j-1] = s[j-1], s[j]
		}
	}
	return nil
}

// ---- state merging: run a pure closure on all its paths and join the
// results into one ite term, so the caller continues as a single path ----

func mergeIntrinsic(in *Interp, fr *frame, fn *ssa.Function, a []Value) Value {
	return in.merge(fr, a[0])
}

type mergeRes struct {
	cond *Term
	val  *Term
	tp   *targetPanic
}

func (in *Interp) merge(fr *frame, closure Value) Value {
	tt := in.tt
	if in.pos < len(in.prefix) {
		// inside a replayed prefix the merge is recomputed identically; its
		// decisions are local and never part of the global prefix
	}
	savedPrefix, savedPos, savedTrace, savedOnFork := in.prefix, in.pos, in.trace, in.onFork
	savedModel, savedOK, savedMemo := in.model, in.modelOK, in.memo
	basePC := len(in.pc)
	in.syncSolver()
	type item struct {
		prefix []Decision
		model  map[string]uint64
	}
	work := []item{{}}
	if savedOK {
		work[0].model = savedModel
	}
	var results []mergeRes
	var abort interface{}
	for len(work) > 0 && abort == nil {
		it := work[len(work)-1]
		work = work[:len(work)-1]
		in.solver.Push()
		in.pc = in.pc[:basePC]
		in.pcSynced = basePC
		in.prefix, in.pos, in.trace = it.prefix, 0, nil
		if it.model != nil {
			in.model, in.modelOK, in.memo = it.model, true, map[*Term]uint64{}
		} else {
			in.modelOK = false
		}
		in.onFork = func(p []Decision, m map[string]uint64) {
			work = append(work, item{prefix: p, model: m})
		}
		var r mergeRes
		skip := false
		func() {
			defer func() {
				if e := recover(); e != nil {
					switch e := e.(type) {
					case pathEnd:
						if e.kind == "infeasible" {
							skip = true
						} else {
							abort = e
						}
					case *targetPanic:
						r.tp = e
					default:
						abort = e
					}
				}
			}()
			v := in.callValue(fr, closure, nil)
			t, ok := v.(*Term)
			if !ok {
				unsupported("verif.Merge* closure must return a scalar, got %T", v)
			}
			r.val = t
		}()
		if abort == nil && !skip {
			c := tt.Bool(true)
			for _, p := range in.pc[basePC:] {
				c = tt.And(c, p)
			}
			r.cond = c
			results = append(results, r)
		}
		in.nLocalPaths++
		in.solver.Pop()
	}
	// restore the outer path
	in.pc = in.pc[:basePC]
	in.pcSynced = basePC
	in.prefix, in.pos, in.trace, in.onFork = savedPrefix, savedPos, savedTrace, savedOnFork
	in.model, in.modelOK, in.memo = savedModel, savedOK, savedMemo
	in.curFrame = fr
	if abort != nil {
		panic(abort)
	}
	if len(results) == 0 {
		panic(pathEnd{"infeasible", "merge: no feasible path"})
	}
	// panicking sub-paths: decided globally (forks the outer path)
	var panicCond *Term = tt.Bool(false)
	var firstPanic *targetPanic
	var vals []mergeRes
	all := tt.Bool(false)
	for _, r := range results {
		all = tt.Or(all, r.cond)
		if r.tp != nil {
			panicCond = tt.Or(panicCond, r.cond)
			if firstPanic == nil {
				firstPanic = r.tp
			}
		} else {
			vals = append(vals, r)
		}
	}
	if !all.IsTrue() {
		// the sub-paths cover everything the closure allows (Assume inside it
		// restricts the outer path too)
		in.assume(all)
	}
	if firstPanic != nil {
		if in.decide(panicCond) {
			panic(firstPanic)
		}
	}
	if len(vals) == 0 {
		panic(pathEnd{"infeasible", "merge: all paths panic"})
	}
	res := vals[len(vals)-1].val
	for i := len(vals) - 2; i >= 0; i-- {
		res = tt.Ite(vals[i].cond, vals[i].val, res)
	}
	return res
}

// newVar creates (or re-uses) a solver variable and registers it as belonging
// to the current path, so that models are only requested for these.
func (in *Interp) newVar(name string, sort Sort) *Term {
	v := in.tt.Var(name, sort)
	in.pathVars = append(in.pathVars, v)
	return v
}
