package main

// Intrinsics added for the C18 (a failed write is always reported) harnesses.
//
// encoding/json is reflection driven and not interpretable.  The C18 writers
// (jsonio, zjsonio) use it only to render text that is then handed to the
// sink; the text itself is irrelevant to the property (which sink call fails
// and whether the error is returned).  Both entry points become opaque,
// fixed renderings; in the native replay the real encoder runs.
//
//   - json.Marshal(v): returns the bytes `{"opaque":1}` and a nil error.
//   - (*json.Encoder).Encode(v): writes `"opaque"\n` to the encoder's writer
//     (first struct field) and returns that Write's error.

//
//   - reflect.TypeOf: returns a nil reflect.Type.  Package zson initialises
//     four package-level variables with reflect.TypeOf(...); running the real
//     body (unsafe eface surgery) crashed the interpreter during the lazy
//     package init.  Reflection stays unsupported: any later use of such a
//     value is a nil dereference on that path (reported, never silently
//     accepted).
//
//   - (*zson.MarshalZNGContext).Marshal of a value whose dynamic type lives in
//     package vng (the VNG metadata tree handed over by vng.Writer.finalize):
//     returns zed.Null and a nil error.  The metadata text is irrelevant to
//     C18 (which of the header / metadata / data writes fails); nothing is
//     claimed about it.  Every other argument goes to the previously
//     registered intrinsic (intrinsics_c14.go).
//
//   - fmt.Fprintf / fmt.Fprintln: exact text (through the exact Sprintf of
//     intrinsics_c17.go) when the format uses only %d %s %v and the operands
//     are concrete integers or strings; the general opaque rendering
//     otherwise.  tableio and textio hand this text to text/tabwriter or the
//     sink, where tabs and newlines steer the flushing.

import (
	"go/types"
	"strings"

	"golang.org/x/tools/go/ssa"
)

func c18IsVNGType(t types.Type) bool {
	if p, ok := t.Underlying().(*types.Pointer); ok {
		t = p.Elem()
	}
	n, ok := t.(*types.Named)
	return ok && n.Obj().Pkg() != nil && strings.HasSuffix(n.Obj().Pkg().Path(), "/super/vng")
}

func init() {
	const marshalKey = "(*github.com/brimdata/super/zson.MarshalZNGContext).Marshal"
	prevMarshal := intrinsics[marshalKey]
	intrinsics[marshalKey] = func(in *Interp, fr *frame, fn *ssa.Function, a []Value) Value {
		if ifc, ok := a[1].(Iface); ok && ifc.t != nil && c18IsVNGType(ifc.t) {
			pkg := in.prog.ImportedPackage("github.com/brimdata/super")
			if pkg == nil || pkg.Var("Null") == nil {
				unsupported("marshal intrinsic: package super not loaded")
			}
			return Tuple{in.load(fr, in.globalPtr(pkg.Var("Null"))), Iface{}}
		}
		if prevMarshal != nil {
			return prevMarshal(in, fr, fn, a)
		}
		unsupported("zson.MarshalZNGContext.Marshal (reflection)")
		return nil
	}
	prevFprintf := intrinsics["fmt.Fprintf"]
	intrinsics["fmt.Fprintf"] = func(in *Interp, fr *frame, fn *ssa.Function, a []Value) Value {
		if f, ok := strConc(a[1].(*Str)); ok {
			if args, ok := a[2].(Slice); ok {
				if s, ok := c17Sprintf(f, args); ok {
					return in.writeTo(fr, a[0].(Iface), in.strToBytes(in.str(s)))
				}
			}
		}
		return prevFprintf(in, fr, fn, a)
	}
	prevFprintln := intrinsics["fmt.Fprintln"]
	intrinsics["fmt.Fprintln"] = func(in *Interp, fr *frame, fn *ssa.Function, a []Value) Value {
		if args, ok := a[1].(Slice); ok {
			f := strings.TrimSuffix(strings.Repeat("%v ", len(args)), " ") + "\n"
			if s, ok := c17Sprintf(f, args); ok {
				return in.writeTo(fr, a[0].(Iface), in.strToBytes(in.str(s)))
			}
		}
		return prevFprintln(in, fr, fn, a)
	}
	if _, ok := intrinsics["reflect.TypeOf"]; !ok {
		intrinsics["reflect.TypeOf"] = func(in *Interp, fr *frame, fn *ssa.Function, a []Value) Value {
			return Iface{}
		}
	}
	if _, ok := intrinsics["encoding/json.Marshal"]; !ok {
		intrinsics["encoding/json.Marshal"] = func(in *Interp, fr *frame, fn *ssa.Function, a []Value) Value {
			return Tuple{in.strToBytes(in.str(`{"opaque":1}`)), Iface{}}
		}
	}
	if _, ok := intrinsics["(*encoding/json.Encoder).Encode"]; !ok {
		intrinsics["(*encoding/json.Encoder).Encode"] = func(in *Interp, fr *frame, fn *ssa.Function, a []Value) Value {
			st, ok := in.loadRaw(a[0].(Ptr)).(Struct)
			if !ok || len(st) == 0 {
				unsupported("json.Encoder layout")
			}
			w, ok := st[0].(Iface)
			if !ok {
				unsupported("json.Encoder layout: first field is not the io.Writer")
			}
			res := in.writeTo(fr, w, in.strToBytes(in.str("\"opaque\"\n")))
			if t, ok := res.(Tuple); ok && len(t) == 2 {
				return t[1]
			}
			return Iface{}
		}
	}
}
