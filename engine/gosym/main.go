package main

import (
	"context"
	"bytes"
	"encoding/json"
	"flag"
	"fmt"
	"go/ast"
	"go/parser"
	"go/token"
	"os"
	"os/exec"
	"path/filepath"
	"regexp"
	"runtime"
	"sort"
	"strconv"
	"strings"
	"time"

	"golang.org/x/tools/go/packages"
	"golang.org/x/tools/go/ssa"
	"golang.org/x/tools/go/ssa/ssautil"
)

// repoDir is /repo; VERIF_REPO overrides it (used only to try the checks on a
// scratch worktree carrying a seeded change, never by the registered commands).
var repoDir = envOr("VERIF_REPO", "/repo")

const (
	verifDir   = "/verif"
	harnessDir = "/verif/harness"
	workDir    = "/verif/.work"
	modPath    = "github.com/brimdata/super"
)

type HarnessMeta struct {
	Name     string
	Property string
	Tier     string // "quick" (runs in both tiers) or "thorough"
	Unwind   int
	Solver   string // optional "verif:solver cvc5": SMT solver for this harness (FP-heavy kernels)
	Desc     string
	Bounds   string
	Outside  string
	File     string
	PkgDir   string // repo-relative dir
	PkgName  string
}

type KnownFinding struct {
	Property string `json:"property"`
	Harness  string `json:"harness"`
	Assert   string `json:"assert"`
	What     string `json:"what"`
}

type KnownFile struct {
	Findings []KnownFinding `json:"findings"`
	Fixed    []string       `json:"fixed"`
}

func main() {
	if len(os.Args) < 2 {
		fmt.Fprintln(os.Stderr, "usage: gosym check <PROPERTY> [flags]")
		os.Exit(2)
	}
	switch os.Args[1] {
	case "check":
		os.Exit(cmdCheck(os.Args[2:]))
	default:
		fmt.Fprintln(os.Stderr, "unknown command", os.Args[1])
		os.Exit(2)
	}
}

func scanHarnesses() (overlay map[string][]byte, metas []HarnessMeta, err error) {
	overlay = map[string][]byte{}
	fset := token.NewFileSet()
	err = filepath.Walk(harnessDir, func(path string, info os.FileInfo, err error) error {
		if err != nil || info.IsDir() || !strings.HasSuffix(path, ".go") {
			return err
		}
		rel, _ := filepath.Rel(harnessDir, path)
		data, err := os.ReadFile(path)
		if err != nil {
			return err
		}
		overlay[filepath.Join(repoDir, rel)] = data
		f, err := parser.ParseFile(fset, path, data, parser.ParseComments)
		if err != nil {
			return err
		}
		for _, d := range f.Decls {
			fd, ok := d.(*ast.FuncDecl)
			if !ok || fd.Recv != nil || !strings.HasPrefix(fd.Name.Name, "VerifH_") {
				continue
			}
			m := HarnessMeta{Name: fd.Name.Name, Tier: "quick", File: path, PkgDir: filepath.Dir(rel), PkgName: f.Name.Name}
			parts := strings.SplitN(fd.Name.Name, "_", 3)
			if len(parts) >= 2 {
				m.Property = parts[1]
			}
			if fd.Doc != nil {
				for _, c := range fd.Doc.List {
					line := strings.TrimSpace(strings.TrimPrefix(c.Text, "//"))
					if !strings.HasPrefix(line, "verif:") {
						continue
					}
					kv := strings.SplitN(strings.TrimPrefix(line, "verif:"), " ", 2)
					val := ""
					if len(kv) == 2 {
						val = strings.TrimSpace(kv[1])
					}
					switch kv[0] {
					case "tier":
						m.Tier = val
					case "unwind":
						m.Unwind, _ = strconv.Atoi(val)
					case "solver":
						m.Solver = val
					case "desc":
						m.Desc += val + " "
					case "bounds":
						m.Bounds += val + " "
					case "outside":
						m.Outside += val + " "
					}
				}
			}
			metas = append(metas, m)
		}
		return nil
	})
	return
}

// writeReplayTests generates one replay test file per harness package.
func writeReplayTests(metas []HarnessMeta, overlay map[string][]byte) map[string]string {
	byDir := map[string][]HarnessMeta{}
	for _, m := range metas {
		byDir[m.PkgDir] = append(byDir[m.PkgDir], m)
	}
	files := map[string]string{}
	for dir, ms := range byDir {
		var sb strings.Builder
		sb.WriteString("//go:build verif\n\npackage " + ms[0].PkgName + "\n\nimport (\n\t\"testing\"\n\n\t\"" + verifPkg + "\"\n)\n\n")
		sb.WriteString("func TestVerifReplay(t *testing.T) {\n\tverif.RunReplay(t, map[string]func(){\n")
		sort.Slice(ms, func(i, j int) bool { return ms[i].Name < ms[j].Name })
		for _, m := range ms {
			fmt.Fprintf(&sb, "\t\t%q: %s,\n", m.Name, m.Name)
		}
		sb.WriteString("\t})\n}\n")
		virt := filepath.Join(repoDir, dir, "zz_verif_replay_test.go")
		overlay[virt] = []byte(sb.String())
		files[dir] = virt
	}
	return files
}

func cmdCheck(args []string) int {
	fs := flag.NewFlagSet("check", flag.ExitOnError)
	tier := fs.String("tier", envOr("VERIF_TIER", "quick"), "quick or thorough")
	workers := fs.Int("workers", runtime.NumCPU(), "parallel workers")
	only := fs.String("only", "", "regexp selecting harness names")
	noReplay := fs.Bool("no-replay", false, "skip native replay (development)")
	debug := fs.Bool("debug", false, "debug output")
	solver := fs.String("solver", "z3", "z3, z3-new or cvc5")
	timeout := fs.Int("timeout", 120000, "per-query solver timeout (ms)")
	maxSteps := fs.Int("max-steps", 20000000, "interpreter steps per path")
	unwind := fs.Int("unwind", 64, "default unwinding bound (symbolic decisions per block per frame)")
	maxPaths := fs.Int("max-paths", 200000, "paths per harness")
	noFailFast := fs.Bool("no-fail-fast", false, "keep exploring a harness after an unlisted violation")
	evidenceOut := fs.String("evidence", "", "evidence file (default /verif/evidence/<id>.json)")
	var prop string
	if len(args) > 0 && !strings.HasPrefix(args[0], "-") {
		prop = args[0]
		args = args[1:]
	}
	fs.Parse(args)
	if prop == "" {
		fmt.Fprintln(os.Stderr, "usage: gosym check <PROPERTY> [flags]")
		return 2
	}
	seed, _ := strconv.Atoi(envOr("VERIF_SEED", "0"))
	start := time.Now()

	overlay, metas, err := scanHarnesses()
	if err != nil {
		fmt.Fprintln(os.Stderr, "scan harnesses:", err)
		return 2
	}
	var sel []HarnessMeta
	var re *regexp.Regexp
	if *only != "" {
		re = regexp.MustCompile(*only)
	}
	for _, m := range metas {
		if m.Property != prop {
			continue
		}
		if m.Tier == "thorough" && *tier != "thorough" {
			continue
		}
		if re != nil && !re.MatchString(m.Name) {
			continue
		}
		sel = append(sel, m)
	}
	if len(sel) == 0 {
		fmt.Fprintf(os.Stderr, "no harness for property %s\n", prop)
		return 2
	}
	// inject only the harness directories this property needs (plus the verif
	// package): unrelated harness files cannot break this check
	selDirs := map[string]bool{}
	for _, m := range sel {
		selDirs[m.PkgDir] = true
	}
	// a harness file may depend on accessor files injected into other packages:
	// a line `// verif:needs <repo-relative dir> ...` anywhere in a file of a
	// selected directory selects those directories too (to a fixpoint)
	for changed := true; changed; {
		changed = false
		for virt, data := range overlay {
			rel, _ := filepath.Rel(repoDir, virt)
			if !selDirs[filepath.Dir(rel)] {
				continue
			}
			for _, line := range strings.Split(string(data), "\n") {
				if rest, ok := strings.CutPrefix(strings.TrimSpace(line), "// verif:needs "); ok {
					for _, d := range strings.Fields(rest) {
						if !selDirs[d] {
							selDirs[d] = true
							changed = true
						}
					}
				}
			}
		}
	}
	for virt := range overlay {
		rel, _ := filepath.Rel(repoDir, virt)
		d := filepath.Dir(rel)
		if !selDirs[d] && d != "internal/verif" {
			delete(overlay, virt)
		}
	}
	var dirMetas []HarnessMeta
	for _, m := range metas {
		if selDirs[m.PkgDir] {
			dirMetas = append(dirMetas, m)
		}
	}
	replayTests := writeReplayTests(dirMetas, overlay)

	// load
	pkgSet := map[string]bool{}
	for _, m := range sel {
		pkgSet[importPath(m.PkgDir)] = true
	}
	var patterns []string
	for p := range pkgSet {
		patterns = append(patterns, p)
	}
	sort.Strings(patterns)
	loadStart := time.Now()
	cfg := &packages.Config{
		Mode:       packages.LoadAllSyntax,
		Dir:        repoDir,
		Overlay:    overlay,
		BuildFlags: []string{"-tags=verif"},
		Env:        append(os.Environ(), "GOFLAGS=-mod=mod", "GOPROXY=off", "GOSUMDB=off", "GOTOOLCHAIN=local"),
	}
	// the replay test files must not be part of the SSA load
	loadOverlay := map[string][]byte{}
	for k, v := range overlay {
		if !strings.HasSuffix(k, "_test.go") {
			loadOverlay[k] = v
		}
	}
	cfg.Overlay = loadOverlay
	pkgs, err := packages.Load(cfg, patterns...)
	if err != nil {
		fmt.Fprintln(os.Stderr, "load:", err)
		return 2
	}
	nerr := 0
	packages.Visit(pkgs, nil, func(p *packages.Package) {
		for _, e := range p.Errors {
			if nerr < 20 {
				fmt.Fprintln(os.Stderr, "load error:", e)
			}
			nerr++
		}
	})
	if nerr > 0 {
		fmt.Printf("INCONCLUSIVE property=%s reason=load-errors(%d)\n", prop, nerr)
		return 2
	}
	prog, spkgs := ssautil.AllPackages(pkgs, ssa.InstantiateGenerics)
	prog.Build()
	loadTime := time.Since(loadStart)

	// harness functions
	var runs []*HarnessRun
	for _, m := range sel {
		var fn *ssa.Function
		for i, p := range pkgs {
			if p.PkgPath == importPath(m.PkgDir) && spkgs[i] != nil {
				fn = spkgs[i].Func(m.Name)
			}
		}
		if fn == nil {
			fmt.Printf("INCONCLUSIVE property=%s obligation=%s reason=harness-not-found\n", prop, m.Name)
			return 2
		}
		runs = append(runs, &HarnessRun{Name: m.Name, Pkg: importPath(m.PkgDir), Fn: fn, Unwind: m.Unwind, Meta: m})
	}

	ecfg := Config{MaxSteps: *maxSteps, MaxDecisions: 5000, Unwind: *unwind, MaxConcretize: 300, Debug: *debug}
	ex := NewExplorer(prog, ecfg, *workers, *solver, *timeout)
	ex.thorough = *tier == "thorough"
	ex.maxPaths = *maxPaths
	known := loadKnown()
	ex.failFast = !*noFailFast
	ex.known = known
	ex.prop = prop
	ex.Run(runs)

	// ---- verdicts ----
	exit := 0
	inconclusive := false
	type caseRef struct {
		run   *HarnessRun
		label string
		viol  *Violation
		wit   *Witness
	}
	var cases []caseRef
	casesByDir := map[string][]replayCase{}
	for _, h := range runs {
		for i := range h.Violations {
			v := &h.Violations[i]
			label := fmt.Sprintf("viol:%s:%s:%d", h.Name, v.ID, i)
			cases = append(cases, caseRef{run: h, label: label, viol: v})
			casesByDir[h.Meta.PkgDir] = append(casesByDir[h.Meta.PkgDir], replayCase{Harness: h.Name, Thorough: ex.thorough, Inputs: v.Inputs, Label: label})
		}
		for i := range h.Witnesses {
			w := &h.Witnesses[i]
			label := fmt.Sprintf("wit:%s:%d", h.Name, i)
			cases = append(cases, caseRef{run: h, label: label, wit: w})
			casesByDir[h.Meta.PkgDir] = append(casesByDir[h.Meta.PkgDir], replayCase{Harness: h.Name, Thorough: ex.thorough, Inputs: w.Inputs, Label: label})
		}
	}
	results := map[string]*replayResult{}
	replayErr := map[string]string{}
	replayStart := time.Now()
	if !*noReplay {
		os.MkdirAll(workDir, 0o755)
		// one test binary per harness package, built and run in parallel
		type dirRes struct {
			dir string
			rs  []*replayResult
			err error
		}
		ch := make(chan dirRes, len(casesByDir))
		sem := make(chan struct{}, 4)
		for dir, cs := range casesByDir {
			go func(dir string, cs []replayCase) {
				sem <- struct{}{}
				defer func() { <-sem }()
				rs, err := runNativeReplay(prop, dir, cs, overlay)
				ch <- dirRes{dir, rs, err}
			}(dir, cs)
		}
		for range casesByDir {
			dr := <-ch
			if dr.err != nil {
				replayErr[dr.dir] = dr.err.Error()
				continue
			}
			for _, r := range dr.rs {
				results[r.Label] = r
			}
		}
	}
	replayTime := time.Since(replayStart)
	_ = replayTests

	witnessOK := 0
	var lines []string
	violCount := 0
	type oblig struct {
		Name         string            `json:"harness"`
		Pkg          string            `json:"package"`
		Desc         string            `json:"desc,omitempty"`
		Bounds       string            `json:"bounds,omitempty"`
		Outside      string            `json:"outside_the_claim,omitempty"`
		Unwind       int               `json:"unwind"`
		Solver       string            `json:"solver,omitempty"`
		Verdict      string            `json:"verdict"`
		Paths        int               `json:"paths_completed"`
		Infeasible   int               `json:"paths_infeasible"`
		PanicPaths   int               `json:"paths_ending_in_panic"`
		Decisions    int               `json:"branch_decisions"`
		MaxDepth     int               `json:"max_decision_depth"`
		Queries      int               `json:"solver_queries"`
		Trivial      int               `json:"decided_without_solver"`
		SolverS      float64           `json:"solver_s"`
		Steps        int64             `json:"ssa_instructions_executed"`
		Funcs        []string          `json:"functions_encoded"`
		Stubs        map[string]int    `json:"stubs_hit"`
		Reached      []string          `json:"regions_reached"`
		GoInlined    int               `json:"go_statements_inlined"`
		Witnesses    int               `json:"witnesses_replayed_natively"`
		Inconclusive []string          `json:"inconclusive,omitempty"`
		StoppedEarly string            `json:"stopped_early,omitempty"`
		Violations   []json.RawMessage `json:"violations,omitempty"`
	}
	var obligs []oblig
	discharged := 0
	var samples []interface{}
	totalPaths, totalDecisions, totalQueries, nontrivial := 0, 0, 0, 0
	var solverS float64
	for _, h := range runs {
		o := oblig{Name: h.Name, Pkg: h.Pkg, Desc: strings.TrimSpace(h.Meta.Desc), Bounds: strings.TrimSpace(h.Meta.Bounds), Outside: strings.TrimSpace(h.Meta.Outside),
			Unwind: h.Unwind, Solver: h.Meta.Solver, Paths: h.Paths, Infeasible: h.Infeasible, PanicPaths: h.PanicPaths, Decisions: h.Decisions, MaxDepth: h.MaxDepth,
			Queries: h.Queries, Trivial: h.Trivial, SolverS: h.SolverTime.Seconds(), Steps: h.Steps, Funcs: sortedKeys(h.Funcs), Stubs: h.Stubs,
			Reached: sortedKeys(h.Reached), GoInlined: h.GoInlined, Inconclusive: h.Inconclusive, StoppedEarly: h.StoppedEarly}
		if o.Unwind == 0 {
			o.Unwind = *unwind
		}
		verdict := "HOLDS"
		if len(h.Inconclusive) > 0 {
			verdict = "INCONCLUSIVE"
			for _, r := range h.Inconclusive {
				lines = append(lines, fmt.Sprintf("INCONCLUSIVE property=%s obligation=%s reason=%s", prop, h.Name, oneLine(r)))
			}
		}
		if h.Paths == 0 && len(h.Violations) == 0 && verdict == "HOLDS" {
			verdict = "INCONCLUSIVE"
			lines = append(lines, fmt.Sprintf("INCONCLUSIVE property=%s obligation=%s reason=vacuous(no path reaches the end of the harness)", prop, h.Name))
		}
		// witnesses
		for i := range h.Witnesses {
			label := fmt.Sprintf("wit:%s:%d", h.Name, i)
			if *noReplay {
				continue
			}
			r := results[label]
			if r == nil {
				verdict = "INCONCLUSIVE"
				lines = append(lines, fmt.Sprintf("INCONCLUSIVE property=%s obligation=%s reason=witness-replay-missing(%s)", prop, h.Name, oneLine(replayErr[h.Meta.PkgDir])))
				continue
			}
			if !r.Done || len(r.Failed) > 0 || r.Mismatch != "" || r.Panic != "" || r.Assumed {
				verdict = "INCONCLUSIVE"
				lines = append(lines, fmt.Sprintf("INCONCLUSIVE property=%s obligation=%s reason=engine-mismatch(witness does not replay: done=%v failed=%v panic=%q assumed=%v mismatch=%q)", prop, h.Name, r.Done, r.Failed, r.Panic, r.Assumed, r.Mismatch))
				continue
			}
			if !sameObs(h.Witnesses[i].Observed, r.Observed) {
				verdict = "INCONCLUSIVE"
				lines = append(lines, fmt.Sprintf("INCONCLUSIVE property=%s obligation=%s reason=engine-mismatch(observed values differ: engine=%v native=%v)", prop, h.Name, h.Witnesses[i].Observed, r.Observed))
				continue
			}
			witnessOK++
			o.Witnesses++
			if len(samples) < 12 {
				samples = append(samples, map[string]interface{}{"kind": "witness", "harness": h.Name, "inputs": compactInputs(h.Witnesses[i].Inputs), "observed": r.Observed, "regions": h.Witnesses[i].Reached})
			}
		}
		// violations
		seenKnown := map[string]bool{}
		for i := range h.Violations {
			v := &h.Violations[i]
			label := fmt.Sprintf("viol:%s:%s:%d", h.Name, v.ID, i)
			confirmed := false
			why := ""
			if *noReplay {
				confirmed = true
			} else if r := results[label]; r == nil {
				why = "replay-missing " + oneLine(replayErr[h.Meta.PkgDir])
			} else if v.ID == "data-race" {
				confirmed = r.Race
				if !confirmed {
					// a candidate the Go race detector does not confirm is dropped: the
					// engine's happens-before model may lack an edge
					vj, _ := json.Marshal(map[string]interface{}{"assert": v.ID, "msg": v.Msg, "confirmed_natively": false, "dropped": "race candidate not confirmed by the Go race detector"})
					o.Violations = append(o.Violations, vj)
					continue
				}
				why = "confirmed by the Go race detector"
			} else if v.ID == "terminates" {
				confirmed = r.TimedOut
				why = fmt.Sprintf("native run came back: done=%v panic=%q failed=%v (the unwinding bound was too small, or the engine loops where the real code does not)", r.Done, r.Panic, r.Failed)
			} else if v.ID == "panic" {
				confirmed = r.Panic != ""
				why = fmt.Sprintf("native run: done=%v panic=%q failed=%v mismatch=%q", r.Done, r.Panic, r.Failed, r.Mismatch)
			} else {
				for _, f := range r.Failed {
					if f == v.ID {
						confirmed = true
					}
				}
				why = fmt.Sprintf("native run: done=%v panic=%q failed=%v mismatch=%q assumed=%v", r.Done, r.Panic, r.Failed, r.Mismatch, r.Assumed)
			}
			kf := findKnown(known, prop, h.Name, v.ID)
			vj, _ := json.Marshal(map[string]interface{}{"assert": v.ID, "msg": v.Msg, "inputs": compactInputs(v.Inputs), "confirmed_natively": confirmed, "known_finding": kf != nil})
			o.Violations = append(o.Violations, vj)
			if !confirmed {
				verdict = "INCONCLUSIVE"
				lines = append(lines, fmt.Sprintf("INCONCLUSIVE property=%s obligation=%s reason=engine-mismatch(model for %s does not reproduce natively: %s)", prop, h.Name, v.ID, why))
				continue
			}
			if kf != nil {
				if !seenKnown[v.ID] {
					seenKnown[v.ID] = true
					lines = append(lines, fmt.Sprintf("KNOWN-FINDING: property=%s %s [%s/%s]", prop, kf.What, h.Name, v.ID))
				}
				if verdict == "HOLDS" {
					verdict = "KNOWN-FINDING"
				}
				continue
			}
			// new violation: persist replay file
			rp := filepath.Join(verifDir, "replays", prop, fmt.Sprintf("%s-%s-%d.json", h.Name, sanitize(v.ID), i))
			os.MkdirAll(filepath.Dir(rp), 0o755)
			data, _ := json.MarshalIndent([]replayCase{{Harness: h.Name, Thorough: ex.thorough, Inputs: v.Inputs, Label: label}}, "", " ")
			os.WriteFile(rp, data, 0o644)
			lines = append(lines, fmt.Sprintf("VIOLATION property=%s replay=%s", prop, rp))
			lines = append(lines, fmt.Sprintf("  obligation=%s assert=%s %s inputs=%s", h.Name, v.ID, v.Msg, compactInputs(v.Inputs)))
			verdict = "VIOLATION"
			violCount++
			if len(samples) < 12 {
				samples = append(samples, map[string]interface{}{"kind": "violation", "harness": h.Name, "assert": v.ID, "inputs": compactInputs(v.Inputs)})
			}
		}
		o.Verdict = verdict
		switch verdict {
		case "HOLDS", "KNOWN-FINDING":
			discharged++
		case "VIOLATION":
			exit = 1
		case "INCONCLUSIVE":
			inconclusive = true
		}
		obligs = append(obligs, o)
		totalPaths += h.Paths + h.Infeasible + h.PanicPaths
		totalDecisions += h.Decisions
		totalQueries += h.Queries
		nontrivial += h.Paths
		solverS += h.SolverTime.Seconds()
		fmt.Printf("%-14s %-44s paths=%d(+%d infeasible,+%d panic) decisions=%d queries=%d solver=%.1fs funcs=%d\n", verdict, h.Name, h.Paths, h.Infeasible, h.PanicPaths, h.Decisions, h.Queries, h.SolverTime.Seconds(), len(h.Funcs))
	}
	for _, l := range lines {
		fmt.Println(l)
	}
	if exit == 0 && inconclusive {
		exit = 2
	}
	var warn []string
	for w, n := range ex.Warnings {
		warn = append(warn, fmt.Sprintf("%s (x%d)", w, n))
	}
	sort.Strings(warn)
	if *debug {
		for _, w := range warn {
			fmt.Fprintln(os.Stderr, "warning:", w)
		}
	}

	// ---- evidence ----
	stubSet := map[string]bool{}
	for _, h := range runs {
		for s := range h.Stubs {
			stubSet[s] = true
		}
	}
	assumptions := []string{
		"GOARCH=amd64: int/uint/uintptr are 64-bit; float->int conversions follow CVTTSD2SQ",
		"single-threaded execution: sync.Mutex/RWMutex/WaitGroup are no-ops, `go f()` runs f to completion at the spawn point, channels only buffered and non-blocking",
		"package-level variables are initialised concretely by running each package's init lazily; init side effects other than assigning globals are not modelled",
		"slice growth on append follows the engine's doubling rule, not the runtime's size classes",
		"every bound (input sizes, Choose ranges, unwinding) is stated per obligation; nothing is claimed outside them",
		"native replay (go test -tags verif -overlay) of every witness and counterexample is the translator validation; solver: " + *solver,
	}
	for _, s := range sortedKeys(stubSet) {
		if !strings.HasPrefix(s, verifPkg) {
			assumptions = append(assumptions, "stub/intrinsic: "+s)
		}
	}
	for _, o := range obligs {
		if o.Outside != "" {
			assumptions = append(assumptions, "outside the claim ("+o.Name+"): "+o.Outside)
		}
	}
	if totalDecisions == 0 {
		totalDecisions = 0
	}
	ev := map[string]interface{}{
		"property_id": prop,
		"tier":        *tier,
		"seed":        seed,
		"level":       "model_checking",
		"wall_s":      time.Since(start).Seconds(),
		"violations":  violCount,
		"assumptions": assumptions,
		"coverage": map[string]interface{}{
			"states":                        max1(totalPaths),
			"transitions":                   max1(totalDecisions),
			"traces_validated_against_impl": witnessOK,
			"samples":                       samplesOrPlaceholder(samples, runs),
			"obligations":                   len(runs),
			"discharged":                    discharged,
			"evaluations":                   max1(totalQueries),
			"distinct_nontrivial":           nontrivial,
			"rule":                          "states = symbolic paths explored (decision prefixes, each path condition decided by the solver); transitions = symbolic branch decisions along them; evaluations = solver check-sat calls; distinct_nontrivial = distinct feasible paths that ran the harness to its end (each has a different decision sequence); traces_validated = solver models replayed against the natively compiled real code with identical outcome",
			"exhaustive":                    !inconclusive,
			"solver":                        *solver,
			"solver_s":                      solverS,
			"load_and_ssa_build_s":          loadTime.Seconds(),
			"native_replay_s":               replayTime.Seconds(),
			"workers":                       *workers,
			"per_obligation":                obligs,
			"engine_warnings":               warn,
			"technique":                     "bounded symbolic execution of the real Go code (go/ssa regenerated from /repo on this run) with SMT (QF_BV + FP) path-condition queries; unsat of pc∧¬assertion on every path within the unwinding bound = holds for all inputs within the bound",
		},
	}
	out := *evidenceOut
	if out == "" {
		out = filepath.Join(verifDir, "evidence", prop+".json")
	}
	os.MkdirAll(filepath.Dir(out), 0o755)
	data, _ := json.MarshalIndent(ev, "", " ")
	os.WriteFile(out, data, 0o644)
	fmt.Printf("property=%s tier=%s obligations=%d discharged=%d paths=%d queries=%d solver=%.1fs load=%.1fs replay=%.1fs wall=%.1fs exit=%d\n",
		prop, *tier, len(runs), discharged, totalPaths, totalQueries, solverS, loadTime.Seconds(), replayTime.Seconds(), time.Since(start).Seconds(), exit)
	return exit
}

func max1(n int) int {
	if n < 1 {
		return 1
	}
	return n
}

func samplesOrPlaceholder(s []interface{}, runs []*HarnessRun) []interface{} {
	if len(s) > 0 {
		return s
	}
	var res []interface{}
	for _, h := range runs {
		res = append(res, map[string]interface{}{"kind": "obligation", "harness": h.Name, "paths": h.Paths})
	}
	return res
}

func oneLine(s string) string {
	s = strings.ReplaceAll(s, "\n", " | ")
	if len(s) > 600 {
		s = s[:600]
	}
	return s
}

func sanitize(s string) string {
	return regexp.MustCompile(`[^A-Za-z0-9_.-]`).ReplaceAllString(s, "_")
}

func compactInputs(in []ReplayInput) string {
	var sb strings.Builder
	for i, x := range in {
		if i > 0 {
			sb.WriteString(" ")
		}
		switch x.Kind {
		case "i64":
			fmt.Fprintf(&sb, "%s=%d", x.Name, int64(x.Value))
		case "i32":
			fmt.Fprintf(&sb, "%s=%d", x.Name, int32(x.Value))
		case "i16":
			fmt.Fprintf(&sb, "%s=%d", x.Name, int16(x.Value))
		case "i8":
			fmt.Fprintf(&sb, "%s=%d", x.Name, int8(x.Value))
		case "f64", "f32":
			fmt.Fprintf(&sb, "%s=bits:%#x", x.Name, x.Value)
		default:
			fmt.Fprintf(&sb, "%s=%d", x.Name, x.Value)
		}
	}
	return sb.String()
}

func sameObs(a, b []string) bool {
	if len(a) != len(b) {
		return false
	}
	for i := range a {
		if a[i] != b[i] {
			return false
		}
	}
	return true
}

func envOr(k, d string) string {
	if v := os.Getenv(k); v != "" {
		return v
	}
	return d
}

func importPath(dir string) string {
	if dir == "." || dir == "" {
		return modPath
	}
	return modPath + "/" + filepath.ToSlash(dir)
}

func loadKnown() *KnownFile {
	var k KnownFile
	data, err := os.ReadFile(filepath.Join(verifDir, "known_findings.json"))
	if err == nil {
		json.Unmarshal(data, &k)
	}
	return &k
}

func findKnown(k *KnownFile, prop, harness, id string) *KnownFinding {
	for i := range k.Findings {
		f := &k.Findings[i]
		if f.Property == prop && f.Harness == harness && f.Assert == id {
			return f
		}
	}
	return nil
}

// ---- native replay ----

type replayCase struct {
	Harness  string        `json:"harness"`
	Thorough bool          `json:"thorough"`
	Inputs   []ReplayInput `json:"inputs"`
	Label    string        `json:"label"`
}

type replayResult struct {
	Harness  string   `json:"harness"`
	Label    string   `json:"label"`
	Failed   []string `json:"failed"`
	Panic    string   `json:"panic"`
	Assumed  bool     `json:"assumed"`
	Mismatch string   `json:"mismatch"`
	Observed []string `json:"observed"`
	Reached  []string `json:"reached"`
	Done     bool     `json:"done"`
	TimedOut bool     `json:"timed_out"`
	Race     bool     `json:"race"`
}

// runNativeReplay runs the cases in one test binary; when a case kills the
// binary (a panic in a goroutine spawned by the code under test cannot be
// recovered by the harness runner) the crash is attributed to that case and
// the remaining cases are run in a fresh binary.
// runNativeReplay builds the package's test binary once (go test -c with the
// harness overlay) and runs every case in its own process, so that cases
// cannot influence each other and a crash of the real code (goroutine panic,
// fatal error) is attributed to exactly the case that caused it.
func runNativeReplay(prop, dir string, cases []replayCase, overlay map[string][]byte) ([]*replayResult, error) {
	wd := filepath.Join(workDir, fmt.Sprintf("%s-%s-%d", prop, sanitize(dir), os.Getpid()))
	os.RemoveAll(wd)
	if err := os.MkdirAll(wd, 0o755); err != nil {
		return nil, err
	}
	if os.Getenv("GOSYM_KEEP_WORK") == "" {
		defer os.RemoveAll(wd)
	}
	// materialise overlay files
	repl := map[string]string{}
	i := 0
	for virt, data := range overlay {
		real := filepath.Join(wd, fmt.Sprintf("ov%d_%s", i, filepath.Base(virt)))
		i++
		if err := os.WriteFile(real, data, 0o644); err != nil {
			return nil, err
		}
		repl[virt] = real
	}
	ovj, _ := json.Marshal(map[string]interface{}{"Replace": repl})
	ovPath := filepath.Join(wd, "overlay.json")
	os.WriteFile(ovPath, ovj, 0o644)
	bin := filepath.Join(wd, "replay.test")
	env := append(os.Environ(), "GOFLAGS=-mod=mod", "GOPROXY=off", "GOSUMDB=off", "GOTOOLCHAIN=local")
	build := exec.Command("go", "test", "-c", "-tags", "verif", "-vet=off", "-overlay", ovPath, "-o", bin, "./"+dir)
	build.Dir = repoDir
	build.Env = env
	if out, err := build.CombinedOutput(); err != nil {
		return nil, fmt.Errorf("go test -c failed: %v: %s", err, oneLine(string(out)))
	}
	// race candidates are confirmed with a -race build of the same test binary
	raceBin := ""
	for _, c := range cases {
		if strings.Contains(c.Label, ":data-race:") {
			raceBin = filepath.Join(wd, "replay_race.test")
			break
		}
	}
	if raceBin != "" {
		rb := exec.Command("go", "test", "-c", "-race", "-tags", "verif", "-vet=off", "-overlay", ovPath, "-o", raceBin, "./"+dir)
		rb.Dir = repoDir
		rb.Env = env
		if out, err := rb.CombinedOutput(); err != nil {
			fmt.Fprintf(os.Stderr, "warning: -race build failed (race candidates stay unconfirmed): %v: %s\n", err, oneLine(string(out)))
			raceBin = ""
		}
	}
	res := make([]*replayResult, len(cases))
	sem := make(chan struct{}, 8)
	done := make(chan struct{})
	for ci := range cases {
		go func(ci int) {
			sem <- struct{}{}
			defer func() { <-sem; done <- struct{}{} }()
			c := cases[ci]
			casePath := filepath.Join(wd, fmt.Sprintf("case%d.json", ci))
			cj, _ := json.Marshal([]replayCase{c})
			os.WriteFile(casePath, cj, 0o644)
			// a `terminates` candidate (failed unwinding assertion) is run under
			// a deadline: not coming back within it confirms the non-termination
			deadline := 6 * time.Minute
			if strings.Contains(c.Label, ":terminates:") {
				deadline = 60 * time.Second
			}
			cctx, cancel := context.WithTimeout(context.Background(), deadline)
			defer cancel()
			isRace := strings.Contains(c.Label, ":data-race:")
			useBin := bin
			if isRace {
				if raceBin == "" {
					res[ci] = &replayResult{Harness: c.Harness, Label: c.Label}
					return
				}
				useBin = raceBin
			}
			cmd := exec.CommandContext(cctx, useBin, "-test.run", "^TestVerifReplay$", "-test.v", "-test.timeout", "5m")
			cmd.Dir = filepath.Join(repoDir, dir)
			cmd.Env = append(append([]string(nil), env...), "VERIF_REPLAY="+casePath)
			if isRace {
				cmd.Env = append(cmd.Env, "GORACE=halt_on_error=1")
			}
			var outb bytes.Buffer
			cmd.Stdout = &outb
			cmd.Stderr = &outb
			runErr := cmd.Run()
			if isRace {
				res[ci] = &replayResult{Harness: c.Harness, Label: c.Label, Race: strings.Contains(outb.String(), "WARNING: DATA RACE")}
				return
			}
			if cctx.Err() == context.DeadlineExceeded && strings.Contains(c.Label, ":terminates:") {
				res[ci] = &replayResult{Harness: c.Harness, Label: c.Label, TimedOut: true}
				return
			}
			for _, line := range strings.Split(outb.String(), "\n") {
				if strings.HasPrefix(line, "VERIF-CASE ") {
					var r replayResult
					if err := json.Unmarshal([]byte(strings.TrimPrefix(line, "VERIF-CASE ")), &r); err == nil {
						res[ci] = &r
					}
				}
			}
			if res[ci] == nil {
				tail := outb.String()
				if len(tail) > 1500 {
					tail = tail[len(tail)-1500:]
				}
				res[ci] = &replayResult{Harness: c.Harness, Label: c.Label, Panic: fmt.Sprintf("test binary died (%v): %s", runErr, oneLine(tail))}
			} else if runErr != nil && res[ci].Panic == "" && res[ci].Done {
				// the harness returned but the process still died (e.g. a goroutine
				// of the real code panicked afterwards)
				tail := outb.String()
				if len(tail) > 1500 {
					tail = tail[len(tail)-1500:]
				}
				res[ci].Panic = "test binary died after the harness returned: " + oneLine(tail)
			}
		}(ci)
	}
	for range cases {
		<-done
	}
	return res, nil
}
