package main

// Intrinsics added for the C07 / C08 / C16-O3 harnesses (file name sorts after
// the other intrinsics_*.go files on purpose: the wrappers below capture the
// registrations made before them and only add cases).
//
//   - pkg/unpack.New: the reflection-built template table of the DAG/AST
//     unpacker (package-level `var unpacker = unpack.New(...)` in
//     compiler/ast/dag).  Reflection is not encodable; the table is nil.  The
//     only consumer reachable from a harness is dag.UnmarshalOp, handled below.
//   - encoding/json.Marshal of a DAG operator + dag.UnmarshalOp: optimizer.copyOp
//     copies an operator by a JSON round trip.  The pair is modelled as a deep
//     copy (identity of contents, fresh objects).  Nothing is claimed about the
//     JSON form.  In the native replay the real round trip runs.
//   - zson ZNG Marshal/Unmarshal of Go values that contain slices or pointers
//     (meta.Partition{Min,Max,Objects []*data.Object}): identity pair over a
//     deep snapshot, like the C14 pair (which handles flat structs and is
//     still used for those).
//   - (*lake.Root).OpenPool: environment (the lake's pool store).  If the
//     harness package defines `VerifEnv_OpenPool(id ksuid.KSUID) (*lake.Pool, error)`
//     it is called instead; the native replay opens a real lake.

import (
	"go/types"
	"strings"

	"golang.org/x/tools/go/ssa"
)

const h07Repo = "github.com/brimdata/super"

func init() {
	intrinsics[h07Repo+"/pkg/unpack.New"] = func(in *Interp, fr *frame, fn *ssa.Function, a []Value) Value {
		return (*Map)(nil)
	}

	prevJSON := intrinsics["encoding/json.Marshal"]
	intrinsics["encoding/json.Marshal"] = func(in *Interp, fr *frame, fn *ssa.Function, a []Value) Value {
		ifc, ok := a[0].(Iface)
		if ok && ifc.t != nil && h07IsDagType(ifc.t) {
			snap := in.h07DeepCopy(ifc.t, ifc.v, map[*Value]Ptr{})
			// a one-cell "byte slice" carrying the snapshot; only
			// dag.UnmarshalOp (below) may consume it
			return Tuple{Slice{h07JSONToken{Iface{t: ifc.t, v: snap}}}, Iface{}}
		}
		if prevJSON != nil {
			return prevJSON(in, fr, fn, a)
		}
		unsupported("encoding/json.Marshal (reflection)")
		return nil
	}
	intrinsics[h07Repo+"/compiler/ast/dag.UnmarshalOp"] = func(in *Interp, fr *frame, fn *ssa.Function, a []Value) Value {
		s, ok := a[0].(Slice)
		if !ok || len(s) != 1 {
			unsupported("dag.UnmarshalOp of bytes not produced by the json.Marshal stub")
		}
		tok, ok := s[0].(h07JSONToken)
		if !ok {
			unsupported("dag.UnmarshalOp of bytes not produced by the json.Marshal stub")
		}
		// every unmarshal yields fresh objects
		cp := in.h07DeepCopy(tok.v.t, tok.v.v, map[*Value]Ptr{})
		return Tuple{Iface{t: tok.v.t, v: cp}, Iface{}}
	}

	mKey := "(*" + h07Repo + "/zson.MarshalZNGContext).Marshal"
	uKey := "(*" + h07Repo + "/zson.UnmarshalZNGContext).Unmarshal"
	prevM, prevU := intrinsics[mKey], intrinsics[uKey]
	intrinsics[mKey] = func(in *Interp, fr *frame, fn *ssa.Function, a []Value) Value {
		ifc, ok := a[1].(Iface)
		if ok && ifc.t != nil && h07NeedsDeep(h07Elem(ifc.t), 0) {
			return in.h07Marshal(fr, ifc)
		}
		if prevM != nil {
			return prevM(in, fr, fn, a)
		}
		unsupported("zson marshal (reflection)")
		return nil
	}
	intrinsics[uKey] = func(in *Interp, fr *frame, fn *ssa.Function, a []Value) Value {
		if tok, ok := a[1].(Struct); ok && len(tok) == 3 {
			if base, ok := tok[1].(Ptr); ok && !base.isNil() && len(base.base) == 3 {
				if _, ok := base.base[2].(h07ZNGMark); ok {
					return in.h07Unmarshal(fr, base.base, a[2])
				}
			}
		}
		if prevU != nil {
			return prevU(in, fr, fn, a)
		}
		unsupported("zson unmarshal (reflection)")
		return nil
	}

	intrinsics["(*"+h07Repo+"/lake.Root).OpenPool"] = func(in *Interp, fr *frame, fn *ssa.Function, a []Value) Value {
		var env *ssa.Function
		for _, p := range in.prog.AllPackages() {
			if p.Pkg != nil && strings.HasPrefix(p.Pkg.Path(), h07Repo) {
				if f := p.Func("VerifEnv_OpenPool"); f != nil {
					env = f
					break
				}
			}
		}
		if env == nil {
			// no environment model: the harness has a real lake (over a model
			// storage engine) and the real OpenPool runs
			in.skipIntrinsic = fn.String()
			return in.callSSA(fr, fn, a, nil)
		}
		return in.callSSA(fr, env, []Value{a[2]}, nil)
	}
}

type h07JSONToken struct{ v Iface }
type h07ZNGMark struct{}

func h07Elem(t types.Type) types.Type {
	if p, ok := t.Underlying().(*types.Pointer); ok {
		return p.Elem()
	}
	return t
}

func h07IsDagType(t types.Type) bool {
	n, ok := h07Elem(t).(*types.Named)
	return ok && n.Obj().Pkg() != nil && n.Obj().Pkg().Path() == h07Repo+"/compiler/ast/dag"
}

func h07IsZedValue(t types.Type) bool {
	n, ok := types.Unalias(t).(*types.Named)
	return ok && n.Obj().Name() == "Value" && n.Obj().Pkg() != nil && n.Obj().Pkg().Path() == h07Repo
}

// h07NeedsDeep: does a value of type t contain slices (other than inside
// zed.Value) or pointers, i.e. is it outside what the flat C14 pair handles?
func h07NeedsDeep(t types.Type, depth int) bool {
	if depth > 6 || h07IsZedValue(t) {
		return false
	}
	switch u := t.Underlying().(type) {
	case *types.Slice, *types.Pointer, *types.Interface, *types.Map:
		return true
	case *types.Struct:
		for i := 0; i < u.NumFields(); i++ {
			if h07NeedsDeep(u.Field(i).Type(), depth+1) {
				return true
			}
		}
	case *types.Array:
		return h07NeedsDeep(u.Elem(), depth+1)
	}
	return false
}

// h07DeepCopy copies v (of static type t) so that the copy shares no mutable
// storage with the original.  zed.Value is a leaf (its bytes are immutable by
// convention and its type pointer must keep its identity).  Sharing between
// pointers inside the copied graph is preserved.
func (in *Interp) h07DeepCopy(t types.Type, v Value, memo map[*Value]Ptr) Value {
	if h07IsZedValue(t) {
		return copyVal(v)
	}
	switch u := t.Underlying().(type) {
	case *types.Pointer:
		p := v.(Ptr)
		if p.isNil() {
			return p
		}
		if p.sym != nil {
			unsupported("deep copy through a symbolic pointer")
		}
		key := &p.base[p.i]
		if np, ok := memo[key]; ok {
			return np
		}
		cell := []Value{nil}
		np := Ptr{base: cell, i: 0}
		memo[key] = np
		cell[0] = in.h07DeepCopy(u.Elem(), p.base[p.i], memo)
		return np
	case *types.Struct:
		sv := v.(Struct)
		out := make(Struct, len(sv))
		for i := range sv {
			out[i] = in.h07DeepCopy(u.Field(i).Type(), sv[i], memo)
		}
		return out
	case *types.Array:
		av := v.(Array)
		out := make(Array, len(av))
		for i := range av {
			out[i] = in.h07DeepCopy(u.Elem(), av[i], memo)
		}
		return out
	case *types.Slice:
		sv := v.(Slice)
		if sv == nil {
			return sv
		}
		out := make(Slice, len(sv))
		for i := range sv {
			out[i] = in.h07DeepCopy(u.Elem(), sv[i], memo)
		}
		return out
	case *types.Interface:
		ifc := v.(Iface)
		if ifc.t == nil {
			return ifc
		}
		return Iface{t: ifc.t, v: in.h07DeepCopy(ifc.t, ifc.v, memo)}
	case *types.Map:
		if m := v.(*Map); m != nil {
			unsupported("deep copy of a non-nil map")
		}
		return v
	}
	return v
}

func (in *Interp) h07Marshal(fr *frame, ifc Iface) Value {
	elem := h07Elem(ifc.t)
	var sv Value
	if _, ok := ifc.t.Underlying().(*types.Pointer); ok {
		p := ifc.v.(Ptr)
		if p.isNil() {
			unsupported("marshal intrinsic: nil pointer")
		}
		sv = in.loadRaw(p)
	} else {
		sv = ifc.v
	}
	snap := in.h07DeepCopy(elem, sv, map[*Value]Ptr{})
	cell := []Value{snap, Iface{t: elem}, h07ZNGMark{}}
	pkg := in.prog.ImportedPackage(h07Repo)
	if pkg == nil || pkg.Var("Null") == nil {
		unsupported("marshal intrinsic: package %s not loaded", h07Repo)
	}
	tok := in.load(fr, in.globalPtr(pkg.Var("Null"))).(Struct)
	tok[1] = Ptr{base: cell, i: 0}
	tok[2] = in.tt.BVConst(0, 64)
	return Tuple{tok, Iface{}}
}

func (in *Interp) h07Unmarshal(fr *frame, cell []Value, dst Value) Value {
	ifc, ok := dst.(Iface)
	if !ok || ifc.t == nil {
		unsupported("unmarshal intrinsic: bad target")
	}
	pt, ok := ifc.t.Underlying().(*types.Pointer)
	if !ok {
		unsupported("unmarshal intrinsic: target %s is not a pointer", ifc.t)
	}
	ti := cell[1].(Iface)
	if !types.Identical(ti.t, pt.Elem()) {
		return in.mkError("verif: unmarshal into " + pt.Elem().String() + " of a marshaled " + ti.t.String())
	}
	in.store(fr, ifc.v.(Ptr), in.h07DeepCopy(ti.t, cell[0], map[*Value]Ptr{}))
	return Iface{}
}
