package main

// Environment model for temporary files (used by runtime/sam/op/spill.File,
// which C20-O2 reaches through fuse.Fuser): os.CreateTemp returns an in-memory
// file; Write appends, Read/Seek move a position, Close/Remove succeed.  The
// file never fails (failing sinks are the subject of C18, not of C20).

import (
	"golang.org/x/tools/go/ssa"
)

type memFile struct {
	data []*Term
	pos  int
}

func memFileOf(v Value) *memFile {
	p := v.(Ptr)
	return p.base[p.i].(Struct)[0].(*memFile)
}

func (in *Interp) ioEOF() Value {
	pkg := in.prog.ImportedPackage("io")
	if pkg == nil {
		unsupported("io package not loaded (temp-file model)")
	}
	return in.loadRaw(in.globalPtr(pkg.Var("EOF")))
}

func init() {
	intrinsics["os.CreateTemp"] = func(in *Interp, fr *frame, fn *ssa.Function, a []Value) Value {
		return Tuple{Ptr{base: []Value{Struct{&memFile{}}}}, Iface{}}
	}
	intrinsics["(*os.File).Write"] = func(in *Interp, fr *frame, fn *ssa.Function, a []Value) Value {
		f := memFileOf(a[0])
		src := a[1].(Slice)
		// writes happen at the current position (only appends occur here)
		if f.pos != len(f.data) {
			unsupported("temp-file model: write not at end of file")
		}
		f.data = append(f.data, in.sliceCells(src)...)
		f.pos = len(f.data)
		return Tuple{in.tt.BVConst(uint64(len(src)), 64), Iface{}}
	}
	intrinsics["(*os.File).Read"] = func(in *Interp, fr *frame, fn *ssa.Function, a []Value) Value {
		f := memFileOf(a[0])
		dst := a[1].(Slice)
		n := len(f.data) - f.pos
		if n > len(dst) {
			n = len(dst)
		}
		if n == 0 && len(dst) > 0 {
			return Tuple{in.tt.BVConst(0, 64), in.ioEOF()}
		}
		for i := 0; i < n; i++ {
			dst[i] = f.data[f.pos+i]
		}
		f.pos += n
		return Tuple{in.tt.BVConst(uint64(n), 64), Iface{}}
	}
	intrinsics["(*os.File).Seek"] = func(in *Interp, fr *frame, fn *ssa.Function, a []Value) Value {
		f := memFileOf(a[0])
		off := int(int64(in.concInt(a[1], "Seek offset")))
		switch in.concInt(a[2], "Seek whence") {
		case 0:
			f.pos = off
		case 1:
			f.pos += off
		case 2:
			f.pos = len(f.data) + off
		}
		if f.pos < 0 || f.pos > len(f.data) {
			unsupported("temp-file model: seek outside the file")
		}
		return Tuple{in.tt.BVConst(uint64(f.pos), 64), Iface{}}
	}
	intrinsics["(*os.File).Close"] = func(in *Interp, fr *frame, fn *ssa.Function, a []Value) Value { return Iface{} }
	intrinsics["(*os.File).Name"] = func(in *Interp, fr *frame, fn *ssa.Function, a []Value) Value {
		return in.str("/verif-model-tempfile")
	}
	intrinsics["os.Remove"] = func(in *Interp, fr *frame, fn *ssa.Function, a []Value) Value { return Iface{} }
}
