package main

// unique.Make[T] (Go 1.23; used by net/netip for its address-family
// sentinels): a canonical pointer per distinct concrete value.  The table is
// kept per interpreter and outlives paths, like the package-level variables of
// a lazily initialised package that hold such handles.

import (
	"golang.org/x/tools/go/ssa"
)

func init() {
	intrinsics["unique.Make"] = func(in *Interp, fr *frame, fn *ssa.Function, a []Value) Value {
		k, ok := concKey(a[0])
		if !ok {
			unsupported("unique.Make of a symbolic value")
		}
		k = fn.String() + "|" + k
		if in.uniqueTab == nil {
			in.uniqueTab = map[string]Ptr{}
		}
		p, ok := in.uniqueTab[k]
		if !ok {
			p = Ptr{base: []Value{a[0]}}
			in.uniqueTab[k] = p
		}
		// Handle[T] is struct{ value *T }
		return Struct{p}
	}
}
