package main

// One long-lived SMT solver process (z3 -in by default) driven over pipes.

import (
	"bufio"
	"fmt"
	"io"
	"os/exec"
	"strconv"
	"strings"
	"time"
)

type Solver struct {
	kind    string // "z3", "z3-new", "cvc5"
	cmd     *exec.Cmd
	in      io.WriteCloser
	out     *bufio.Reader
	defined map[int]bool // term ids already introduced by define-fun / declare
	Queries int
	Time    time.Duration
	Errors  []string
	timeout int // ms
	log     io.Writer
	buf     strings.Builder
	pendingPop bool
	scopes     [][]int
}

func NewSolver(kind string, timeoutMs int) (*Solver, error) {
	s := &Solver{kind: kind, timeout: timeoutMs, defined: map[int]bool{}}
	if err := s.start(); err != nil {
		return nil, err
	}
	return s, nil
}

func (s *Solver) start() error {
	var cmd *exec.Cmd
	switch s.kind {
	case "z3", "z3-new":
		cmd = exec.Command(s.kind, "-in")
	case "cvc5":
		cmd = exec.Command("cvc5", "--incremental", "--lang=smt2", "--produce-models", fmt.Sprintf("--tlimit-per=%d", s.timeout))
	default:
		return fmt.Errorf("unknown solver %q", s.kind)
	}
	in, err := cmd.StdinPipe()
	if err != nil {
		return err
	}
	out, err := cmd.StdoutPipe()
	if err != nil {
		return err
	}
	cmd.Stderr = cmd.Stdout
	if err := cmd.Start(); err != nil {
		return err
	}
	s.cmd, s.in, s.out = cmd, in, bufio.NewReaderSize(out, 1<<16)
	s.prelude()
	return nil
}

func (s *Solver) prelude() {
	if s.kind == "cvc5" {
		s.send("(set-logic ALL)")
	} else {
		s.send("(set-option :produce-models true)")
		s.send(fmt.Sprintf("(set-option :timeout %d)", s.timeout))
	}
}

func (s *Solver) Close() {
	if s.cmd != nil {
		s.in.Close()
		s.cmd.Process.Kill()
		s.cmd.Wait()
		s.cmd = nil
	}
	// commands buffered for the dead process (e.g. its prelude) must not be
	// replayed into a restarted one: a second set-logic kills cvc5
	s.buf.Reset()
}

func (s *Solver) send(line string) {
	s.buf.WriteString(line)
	s.buf.WriteByte('\n')
}

func (s *Solver) flush() {
	if s.buf.Len() == 0 {
		return
	}
	if s.log != nil {
		io.WriteString(s.log, s.buf.String())
	}
	io.WriteString(s.in, s.buf.String())
	s.buf.Reset()
}

// Reset forgets all assertions and definitions.
func (s *Solver) Reset() {
	if s.kind == "cvc5" {
		// cvc5 1.0 supports (reset) but loses options given on the command line
		// only partially; restart the process to be safe.
		s.Close()
		s.defined = map[int]bool{}
		if err := s.start(); err != nil {
			panic(err)
		}
		return
	}
	s.send("(reset)")
	s.scopes = nil
	s.defined = map[int]bool{}
	s.prelude()
}

// name returns the SMT expression naming t, emitting definitions for any
// sub-term not yet known to the solver.
func (s *Solver) name(t *Term) string {
	switch t.op {
	case OConst:
		return t.render(nil)
	case OVar:
		if !s.defined[t.id] {
			s.defined[t.id] = true
			s.noteDef(t.id)
			s.send(fmt.Sprintf("(declare-fun |%s| () %s)", t.name, t.sort))
		}
		return "|" + t.name + "|"
	}
	n := "t" + strconv.Itoa(t.id)
	if s.defined[t.id] {
		return n
	}
	args := make([]string, len(t.args))
	for i, a := range t.args {
		args[i] = s.name(a)
	}
	s.defined[t.id] = true
	s.noteDef(t.id)
	s.send(fmt.Sprintf("(define-fun %s () %s %s)", n, t.sort, t.render(args)))
	return n
}

func (s *Solver) Assert(t *Term) {
	s.send("(assert " + s.name(t) + ")")
}

func (s *Solver) noteDef(id int) {
	if n := len(s.scopes); n > 0 {
		s.scopes[n-1] = append(s.scopes[n-1], id)
	}
}

func (s *Solver) Push() {
	s.send("(push 1)")
	s.scopes = append(s.scopes, nil)
}

func (s *Solver) Pop() {
	s.send("(pop 1)")
	n := len(s.scopes)
	for _, id := range s.scopes[n-1] {
		delete(s.defined, id)
	}
	s.scopes = s.scopes[:n-1]
}

// definitions made between Push and Pop would be lost by the solver, so the
// caller uses CheckWith instead, which defines the extra terms before pushing.

// CheckWith answers whether the current assertions plus extra are satisfiable.
// Returns "sat", "unsat", "unknown" or "error".
func (s *Solver) CheckWith(extra ...*Term) string {
	names := make([]string, len(extra))
	for i, e := range extra {
		names[i] = s.name(e)
	}
	if len(extra) > 0 {
		s.Push()
		for _, n := range names {
			s.send("(assert " + n + ")")
		}
	}
	s.send("(check-sat)")
	res := s.readCheck()
	s.pendingPop = len(extra) > 0
	return res
}

// after CheckWith, the caller may call Values (if sat) and must call Done.
func (s *Solver) Done() {
	if s.pendingPop {
		s.Pop()
		s.pendingPop = false
	}
}

func (s *Solver) readCheck() string {
	start := time.Now()
	s.flush()
	s.Queries++
	res := "error"
	for {
		line, err := s.out.ReadString('\n')
		if err != nil {
			s.Errors = append(s.Errors, "solver died: "+err.Error())
			return "error"
		}
		line = strings.TrimSpace(line)
		if line == "" {
			continue
		}
		if line == "sat" || line == "unsat" || line == "unknown" {
			res = line
			break
		}
		if strings.HasPrefix(line, "(error") {
			s.Errors = append(s.Errors, line)
			// keep reading: the check-sat answer still follows
			continue
		}
		// cvc5 prints "timeout" style answers as unknown; anything else is noise
		s.Errors = append(s.Errors, "unexpected solver output: "+line)
	}
	s.Time += time.Since(start)
	if len(s.Errors) > 0 && res != "error" {
		// any error line makes the answer untrustworthy
		return "error"
	}
	return res
}

// Values returns the model values of the given variables (BV or Bool).
func (s *Solver) Values(vars []*Term) (map[string]uint64, error) {
	m := map[string]uint64{}
	if len(vars) == 0 {
		return m, nil
	}
	// chunk to keep lines moderate
	for i := 0; i < len(vars); i += 200 {
		j := i + 200
		if j > len(vars) {
			j = len(vars)
		}
		var sb strings.Builder
		sb.WriteString("(get-value (")
		for _, v := range vars[i:j] {
			sb.WriteString(s.name(v))
			sb.WriteByte(' ')
		}
		sb.WriteString("))")
		s.send(sb.String())
		s.flush()
		txt, err := s.readSexp()
		if err != nil {
			return nil, err
		}
		if strings.HasPrefix(txt, "(error") {
			return nil, fmt.Errorf("get-value: %s", txt)
		}
		if err := parseValues(txt, m); err != nil {
			return nil, err
		}
	}
	return m, nil
}

func (s *Solver) readSexp() (string, error) {
	var sb strings.Builder
	depth := 0
	started := false
	inBar := false
	for {
		c, err := s.out.ReadByte()
		if err != nil {
			return "", err
		}
		if !started {
			if c == '(' {
				started = true
			} else {
				continue
			}
		}
		sb.WriteByte(c)
		if c == '|' {
			inBar = !inBar
		}
		if inBar {
			continue
		}
		if c == '(' {
			depth++
		} else if c == ')' {
			depth--
			if depth == 0 {
				return sb.String(), nil
			}
		}
	}
}

func parseValues(txt string, m map[string]uint64) error {
	// ((|name| #x..) (|n2| true) ...)
	// cvc5 prints simple symbols without bars: ((name #b..) ...)
	n := len(txt)
	i := strings.IndexByte(txt, '(') + 1 // past the outer parenthesis
	for i < n {
		// find the "(" opening the next (name value) pair
		k := strings.IndexByte(txt[i:], '(')
		if k < 0 {
			break
		}
		i += k + 1
		var name string
		if i < n && txt[i] == '|' {
			i++
			e := strings.IndexByte(txt[i:], '|')
			if e < 0 {
				return fmt.Errorf("bad get-value output")
			}
			name = txt[i : i+e]
			i += e + 1
		} else {
			e := strings.IndexAny(txt[i:], " \n")
			if e < 0 {
				return fmt.Errorf("bad get-value output")
			}
			name = txt[i : i+e]
			i += e
		}
		// skip spaces
		for i < n && (txt[i] == ' ' || txt[i] == '\n') {
			i++
		}
		j := i
		for j < n && txt[j] != ')' && txt[j] != ' ' && txt[j] != '\n' {
			j++
		}
		tok := txt[i:j]
		var v uint64
		switch {
		case tok == "true":
			v = 1
		case tok == "false":
			v = 0
		case strings.HasPrefix(tok, "#x"):
			x, err := strconv.ParseUint(tok[2:], 16, 64)
			if err != nil {
				return err
			}
			v = x
		case strings.HasPrefix(tok, "#b"):
			x, err := strconv.ParseUint(tok[2:], 2, 64)
			if err != nil {
				return err
			}
			v = x
		case strings.HasPrefix(tok, "(_"):
			// (_ bv123 64)
			rest := strings.TrimSpace(txt[j:])
			if strings.HasPrefix(rest, "bv") {
				e2 := strings.IndexByte(rest, ' ')
				x, err := strconv.ParseUint(rest[2:e2], 10, 64)
				if err != nil {
					return err
				}
				v = x
			} else {
				return fmt.Errorf("unparsed value %q", txt[i:])
			}
		default:
			return fmt.Errorf("unparsed value token %q", tok)
		}
		m[name] = v
		i = j
	}
	return nil
}
