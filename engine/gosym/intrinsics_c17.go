package main

// Intrinsics added for the C12/C17 (journal over a model storage engine)
// harnesses.
//
//   - fmt.Sprintf: exact rendering when the format uses only %d %s %v %%
//     and every operand is a concrete integer or string (named types
//     included).  The journal builds its storage keys ("%d.%s") and the TAIL
//     file ("%d %d") with Sprintf and parses them back, so the opaque text of
//     the general stub is not enough.  Everything else falls back to the
//     general stub.
//   - os.IsExist/IsNotExist/IsPermission: package os is never initialised by
//     the engine (its init touches the runtime), so os.ErrExist & co. are nil
//     and the real predicates would always answer false; the intrinsic runs
//     the real os.underlyingErrorIs against the io/fs sentinel the os
//     variable is an alias of.  journal.Store.commit decides "retry" with
//     os.IsExist.
//   - time.After: a channel that is ready at once (time is not modelled; the
//     HEAD parse-retry loop of journal.readID waits on it).
//   - math/rand.Intn: 0 (environment; only used as back-off jitter).

import (
	"go/types"
	"strconv"
	"strings"

	"golang.org/x/tools/go/ssa"
)

func init() {
	general := intrinsics["fmt.Sprintf"]
	intrinsics["fmt.Sprintf"] = func(in *Interp, fr *frame, fn *ssa.Function, a []Value) Value {
		if f, ok := strConc(a[0].(*Str)); ok {
			if args, ok := a[1].(Slice); ok {
				if s, ok := c17Sprintf(f, args); ok {
					return in.str(s)
				}
			}
		}
		return general(in, fr, fn, a)
	}
	for fname, sentinel := range map[string]string{"os.IsExist": "ErrExist", "os.IsNotExist": "ErrNotExist", "os.IsPermission": "ErrPermission"} {
		if _, ok := intrinsics[fname]; !ok {
			intrinsics[fname] = c17OsIs(sentinel)
		}
	}
	if _, ok := intrinsics["time.After"]; !ok {
		intrinsics["time.After"] = func(in *Interp, fr *frame, fn *ssa.Function, a []Value) Value {
			elem := fn.Signature.Results().At(0).Type().Underlying().(*types.Chan).Elem()
			return &Chan{cap: 1, buf: []Value{in.zero(elem)}}
		}
	}
	if _, ok := intrinsics["math/rand.Intn"]; !ok {
		intrinsics["math/rand.Intn"] = func(in *Interp, fr *frame, fn *ssa.Function, a []Value) Value {
			return in.tt.BVConst(0, 64)
		}
	}
}

func c17OsIs(sentinel string) intrinsic {
	return func(in *Interp, fr *frame, fn *ssa.Function, a []Value) Value {
		f := in.findFunc("os", "underlyingErrorIs")
		pkg := in.prog.ImportedPackage("io/fs")
		if f == nil || pkg == nil || pkg.Var(sentinel) == nil {
			unsupported("os error predicate: os.underlyingErrorIs or io/fs.%s not loaded", sentinel)
		}
		target := in.load(fr, in.globalPtr(pkg.Var(sentinel)))
		return in.callSSA(fr, f, []Value{a[0], target}, nil)
	}
}

// c17Sprintf renders format exactly, or reports false.
func c17Sprintf(format string, args Slice) (string, bool) {
	var sb strings.Builder
	ai := 0
	for i := 0; i < len(format); i++ {
		c := format[i]
		if c != '%' {
			sb.WriteByte(c)
			continue
		}
		i++
		if i >= len(format) {
			return "", false
		}
		verb := format[i]
		if verb == '%' {
			sb.WriteByte('%')
			continue
		}
		if verb != 'd' && verb != 's' && verb != 'v' {
			return "", false
		}
		if ai >= len(args) {
			return "", false
		}
		ifc, ok := args[ai].(Iface)
		ai++
		if !ok || ifc.t == nil {
			return "", false
		}
		// a type with its own String/Error/Format method is not rendered here
		if c17HasFormatter(ifc.t, verb == 'd') {
			return "", false
		}
		b, ok := ifc.t.Underlying().(*types.Basic)
		if !ok {
			return "", false
		}
		switch {
		case b.Info()&types.IsString != 0:
			if verb == 'd' {
				return "", false
			}
			sv, ok := ifc.v.(*Str)
			if !ok {
				return "", false
			}
			s, ok := strConc(sv)
			if !ok {
				return "", false
			}
			sb.WriteString(s)
		case b.Info()&types.IsInteger != 0:
			if verb == 's' {
				return "", false
			}
			t, ok := ifc.v.(*Term)
			if !ok || !t.IsConst() {
				return "", false
			}
			if b.Info()&types.IsUnsigned != 0 {
				sb.WriteString(strconv.FormatUint(t.cval, 10))
			} else {
				w := uint(t.sort.W)
				v := int64(t.cval)
				if w < 64 {
					v = int64(t.cval<<(64-w)) >> (64 - w)
				}
				sb.WriteString(strconv.FormatInt(v, 10))
			}
		default:
			return "", false
		}
	}
	if ai != len(args) {
		return "", false
	}
	return sb.String(), true
}

func c17HasFormatter(t types.Type, onlyFormat bool) bool {
	for _, tt := range []types.Type{t, types.NewPointer(t)} {
		ms := types.NewMethodSet(tt)
		for i := 0; i < ms.Len(); i++ {
			switch ms.At(i).Obj().Name() {
			case "Format":
				return true
			case "String", "Error", "GoString":
				if !onlyFormat {
					return true
				}
			}
		}
	}
	return false
}
