package main

// Paired contract model of LZ4 block compression (file sorts after
// intrinsics_c14.go on purpose: c14 registers its CompressBlock stub only `if
// absent`, intrinsics.go registers UncompressBlock in its table literal; this
// init runs later and overrides both).
//
// CONTRACT STUB, not LZ4.  The real pierrec/lz4 block codec (hash tables,
// unsafe word loads) is not encoded.  What zngio relies on is its contract:
//
//	CompressBlock(src,dst)   either reports "incompressible" (0,nil) or writes
//	                         n < len(src) bytes to dst such that
//	UncompressBlock(dst[:n], out) with len(out) >= len(src) writes exactly
//	                         src to out and returns len(src); with a shorter
//	                         out, or with bytes that CompressBlock did not
//	                         produce, it returns an error or a wrong count.
//
// Model: the compressed form of a block of more than 4 bytes is the 4-byte
// token {0xC7, idHi, idLo, 0x00}; a per-path side table maps id to a copy of
// the source cells (symbolic bytes included).  CompressBlock forks between
// "incompressible" and "compressed" (a block of <= 4 bytes is always
// incompressible: the token would not be shorter).  UncompressBlock of a
// token copies the recorded block; of anything else it keeps the earlier
// contract behaviours (error / full / short count, contents untouched).
//
// The "compressed" alternative is explored only on paths on which the harness
// has called a function named verifLZ4PairModel (declared in the harness
// package as a native no-op): every lake / journal / data-object writer
// compresses by default, and forking each of their frames would multiply the
// paths of harnesses whose claims do not concern compression.  Without the
// call the behaviour is the earlier stub: incompressible.
//
// In the native replay the real LZ4 runs (short high-entropy blocks come out
// incompressible there): a harness using this model must not Observe
// quantities that depend on the compressed size.

import (
	"reflect"
	"sync"

	"golang.org/x/tools/go/ssa"
)

const (
	lz4PairMagic   = 0xC7
	lz4PairMinSize = 5 // shortest block the model compresses (token is 4 bytes)
)

type lz4PairState struct {
	// owner is the per-path onceDone map of the interpreter (resetPath makes a
	// new one for every path; holding the reference keeps its address from
	// being reused): a different map means a new path, so the table is reset.
	owner map[string]bool
	on    bool
	tab   [][]*Term
}

var (
	lz4PairMu     sync.Mutex
	lz4PairStates = map[*Interp]*lz4PairState{}
)

func lz4PairOf(in *Interp) *lz4PairState {
	lz4PairMu.Lock()
	defer lz4PairMu.Unlock()
	st := lz4PairStates[in]
	if st == nil {
		st = &lz4PairState{}
		lz4PairStates[in] = st
	}
	if st.owner == nil || reflect.ValueOf(st.owner).Pointer() != reflect.ValueOf(in.onceDone).Pointer() {
		st.owner, st.on, st.tab = in.onceDone, false, nil
	}
	return st
}

func lz4PairCompress(in *Interp, src, dst Slice) Value {
	incompressible := Tuple{in.tt.BVConst(0, 64), Iface{}}
	st := lz4PairOf(in)
	if !st.on || len(src) < lz4PairMinSize || len(dst) < 4 || len(st.tab) >= 1<<16 {
		return incompressible
	}
	if in.choose(2) == 0 {
		return incompressible
	}
	id := len(st.tab)
	st.tab = append(st.tab, append([]*Term(nil), in.sliceCells(src)...))
	dst[0] = in.byteC[lz4PairMagic]
	dst[1] = in.byteC[byte(id>>8)]
	dst[2] = in.byteC[byte(id)]
	dst[3] = in.byteC[0]
	return Tuple{in.tt.BVConst(4, 64), Iface{}}
}

// lz4PairToken returns the recorded block if zbuf is a token of this path.
func lz4PairToken(in *Interp, zbuf Slice) ([]*Term, bool) {
	if len(zbuf) != 4 {
		return nil, false
	}
	var b [4]byte
	for i := range b {
		t, ok := zbuf[i].(*Term)
		if !ok || !t.IsConst() {
			return nil, false
		}
		b[i] = byte(t.cval)
	}
	if b[0] != lz4PairMagic || b[3] != 0 {
		return nil, false
	}
	st := lz4PairOf(in)
	id := int(b[1])<<8 | int(b[2])
	if id >= len(st.tab) {
		return nil, false
	}
	return st.tab[id], true
}

func init() {
	prevUncompress := intrinsics["github.com/pierrec/lz4/v4.UncompressBlock"]
	intrinsics["(*github.com/pierrec/lz4/v4.Compressor).CompressBlock"] = func(in *Interp, fr *frame, fn *ssa.Function, a []Value) Value {
		return lz4PairCompress(in, a[1].(Slice), a[2].(Slice))
	}
	intrinsics["github.com/pierrec/lz4/v4.CompressBlock"] = func(in *Interp, fr *frame, fn *ssa.Function, a []Value) Value {
		return lz4PairCompress(in, a[0].(Slice), a[1].(Slice))
	}
	intrinsics["github.com/pierrec/lz4/v4.UncompressBlock"] = func(in *Interp, fr *frame, fn *ssa.Function, a []Value) Value {
		zbuf, dst := a[0].(Slice), a[1].(Slice)
		if blk, ok := lz4PairToken(in, zbuf); ok {
			if len(dst) < len(blk) {
				return Tuple{in.tt.BVConst(0, 64), in.mkError("lz4: invalid source or destination buffer too short")}
			}
			for i, c := range blk {
				dst[i] = c
			}
			return Tuple{in.tt.BVConst(uint64(len(blk)), 64), Iface{}}
		}
		return prevUncompress(in, fr, fn, a)
	}
	// the harness-side switch (a native no-op declared in the harness package)
	for _, pkg := range []string{"/zio/zngio", "/lake/data", "/lake"} {
		intrinsics[zedPkgPath+pkg+".verifLZ4PairModel"] = func(in *Interp, fr *frame, fn *ssa.Function, a []Value) Value {
			lz4PairOf(in).on = true
			return nil
		}
	}
}
