package main

// Hash-consed SMT terms with constant folding.  Bit-vectors model Go's
// wrapping integers exactly; floats use the SMT FloatingPoint theory.

import (
	"fmt"
	"math"
	"math/bits"
	"strconv"
	"strings"
)

type SortKind uint8

const (
	SBool SortKind = iota
	SBV
	SFP
)

type Sort struct {
	K SortKind
	W int // BV width, or FP total width (32/64)
}

var BoolSort = Sort{SBool, 0}

func BV(w int) Sort { return Sort{SBV, w} }
func FP(w int) Sort { return Sort{SFP, w} }

func (s Sort) String() string {
	switch s.K {
	case SBool:
		return "Bool"
	case SBV:
		return fmt.Sprintf("(_ BitVec %d)", s.W)
	case SFP:
		if s.W == 32 {
			return "(_ FloatingPoint 8 24)"
		}
		return "(_ FloatingPoint 11 53)"
	}
	return "?"
}

type Op uint8

const (
	OConst Op = iota
	OVar
	ONot
	OAnd
	OOr
	OIte
	OEq
	OAdd
	OSub
	OMul
	OUDiv
	OSDiv
	OURem
	OSRem
	OBAnd
	OBOr
	OBXor
	OShl
	OLShr
	OAShr
	OUlt
	OUle
	OSlt
	OSle
	OExtract // p1=hi p2=lo
	OZExt    // p1=extra bits
	OSExt
	OConcat
	// FP
	OFAdd
	OFSub
	OFMul
	OFDiv
	OFNeg
	OFLt
	OFLe
	OFEq // IEEE equality
	OFIsNaN
	OSToF  // signed bv -> fp
	OUToF  // unsigned bv -> fp
	OFToS  // fp -> signed bv (RTZ); p1 = width
	OFToU  // fp -> unsigned bv (RTZ)
	OFToF  // fp -> fp
	OBitsF // bv bits -> fp (reinterpret)
)

var opNames = map[Op]string{
	ONot: "not", OAnd: "and", OOr: "or", OIte: "ite", OEq: "=",
	OAdd: "bvadd", OSub: "bvsub", OMul: "bvmul", OUDiv: "bvudiv", OSDiv: "bvsdiv",
	OURem: "bvurem", OSRem: "bvsrem", OBAnd: "bvand", OBOr: "bvor", OBXor: "bvxor",
	OShl: "bvshl", OLShr: "bvlshr", OAShr: "bvashr", OUlt: "bvult", OUle: "bvule",
	OSlt: "bvslt", OSle: "bvsle", OConcat: "concat",
	OFAdd: "fp.add RNE", OFSub: "fp.sub RNE", OFMul: "fp.mul RNE", OFDiv: "fp.div RNE",
	OFNeg: "fp.neg", OFLt: "fp.lt", OFLe: "fp.leq", OFEq: "fp.eq", OFIsNaN: "fp.isNaN",
}

type Term struct {
	id   int
	op   Op
	sort Sort
	args []*Term
	cval uint64 // OConst: value (bool 0/1, bv value, fp bit pattern)
	p1   int
	p2   int
	name string // OVar
}

type TermTable struct {
	tab    map[string]*Term
	nextID int
	vars   []*Term
}

func NewTermTable() *TermTable {
	return &TermTable{tab: map[string]*Term{}}
}

func (tt *TermTable) mk(op Op, sort Sort, cval uint64, p1, p2 int, name string, args ...*Term) *Term {
	var sb strings.Builder
	sb.WriteByte(byte(op))
	sb.WriteByte(byte(sort.K))
	sb.WriteString(strconv.Itoa(sort.W))
	sb.WriteByte(':')
	if op == OConst {
		sb.WriteString(strconv.FormatUint(cval, 16))
	} else if op == OVar {
		sb.WriteString(name)
	} else {
		sb.WriteString(strconv.Itoa(p1))
		sb.WriteByte(',')
		sb.WriteString(strconv.Itoa(p2))
		for _, a := range args {
			sb.WriteByte(' ')
			sb.WriteString(strconv.Itoa(a.id))
		}
	}
	k := sb.String()
	if t, ok := tt.tab[k]; ok {
		return t
	}
	t := &Term{id: tt.nextID, op: op, sort: sort, args: append([]*Term(nil), args...), cval: cval, p1: p1, p2: p2, name: name}
	tt.nextID++
	tt.tab[k] = t
	if op == OVar {
		tt.vars = append(tt.vars, t)
	}
	return t
}

func mask(w int) uint64 {
	if w >= 64 {
		return ^uint64(0)
	}
	return (uint64(1) << uint(w)) - 1
}

func sext(v uint64, w int) int64 {
	if w >= 64 {
		return int64(v)
	}
	sh := uint(64 - w)
	return int64(v<<sh) >> sh
}

func (t *Term) IsConst() bool { return t.op == OConst }
func (t *Term) IsTrue() bool  { return t.op == OConst && t.sort.K == SBool && t.cval == 1 }
func (t *Term) IsFalse() bool { return t.op == OConst && t.sort.K == SBool && t.cval == 0 }

func (tt *TermTable) Bool(b bool) *Term {
	if b {
		return tt.mk(OConst, BoolSort, 1, 0, 0, "")
	}
	return tt.mk(OConst, BoolSort, 0, 0, 0, "")
}
func (tt *TermTable) BVConst(v uint64, w int) *Term {
	return tt.mk(OConst, BV(w), v&mask(w), 0, 0, "")
}
func (tt *TermTable) FPConst64(f float64) *Term {
	return tt.mk(OConst, FP(64), math.Float64bits(f), 0, 0, "")
}
func (tt *TermTable) FPConst32(f float32) *Term {
	return tt.mk(OConst, FP(32), uint64(math.Float32bits(f)), 0, 0, "")
}
func (tt *TermTable) FPConstBits(b uint64, w int) *Term {
	return tt.mk(OConst, FP(w), b&mask(w), 0, 0, "")
}
func (tt *TermTable) Var(name string, s Sort) *Term {
	return tt.mk(OVar, s, 0, 0, 0, name)
}

func (tt *TermTable) Not(a *Term) *Term {
	if a.IsConst() {
		return tt.Bool(a.cval == 0)
	}
	if a.op == ONot {
		return a.args[0]
	}
	return tt.mk(ONot, BoolSort, 0, 0, 0, "", a)
}

func (tt *TermTable) And(a, b *Term) *Term {
	if a.IsConst() {
		if a.cval == 0 {
			return a
		}
		return b
	}
	if b.IsConst() {
		if b.cval == 0 {
			return b
		}
		return a
	}
	if a == b {
		return a
	}
	return tt.mk(OAnd, BoolSort, 0, 0, 0, "", a, b)
}

func (tt *TermTable) Or(a, b *Term) *Term {
	if a.IsConst() {
		if a.cval == 1 {
			return a
		}
		return b
	}
	if b.IsConst() {
		if b.cval == 1 {
			return b
		}
		return a
	}
	if a == b {
		return a
	}
	return tt.mk(OOr, BoolSort, 0, 0, 0, "", a, b)
}

func (tt *TermTable) Ite(c, a, b *Term) *Term {
	if c.IsConst() {
		if c.cval == 1 {
			return a
		}
		return b
	}
	if a == b {
		return a
	}
	if a.sort.K == SBool {
		if a.IsTrue() && b.IsFalse() {
			return c
		}
		if a.IsFalse() && b.IsTrue() {
			return tt.Not(c)
		}
	}
	return tt.mk(OIte, a.sort, 0, 0, 0, "", c, a, b)
}

func (tt *TermTable) Eq(a, b *Term) *Term {
	if a == b && a.sort.K != SFP {
		return tt.Bool(true)
	}
	if a.sort != b.sort {
		panic(fmt.Sprintf("Eq sort mismatch %v %v", a.sort, b.sort))
	}
	if a.IsConst() && b.IsConst() {
		if a.sort.K == SFP {
			// structural (SMT =) equality on FP: bit patterns equal, all NaN equal
			if fpIsNaN(a.cval, a.sort.W) && fpIsNaN(b.cval, b.sort.W) {
				return tt.Bool(true)
			}
			return tt.Bool(a.cval == b.cval)
		}
		return tt.Bool(a.cval == b.cval)
	}
	if a.sort.K == SBool {
		if a.IsConst() {
			a, b = b, a
		}
		if b.IsConst() {
			if b.cval == 1 {
				return a
			}
			return tt.Not(a)
		}
	}
	if a.id > b.id {
		a, b = b, a
	}
	return tt.mk(OEq, BoolSort, 0, 0, 0, "", a, b)
}

func fpIsNaN(b uint64, w int) bool {
	if w == 32 {
		f := math.Float32frombits(uint32(b))
		return f != f
	}
	f := math.Float64frombits(b)
	return f != f
}

// BinBV builds an arithmetic/bitwise bit-vector term.
func (tt *TermTable) BinBV(op Op, a, b *Term) *Term {
	if a.sort != b.sort || a.sort.K != SBV {
		panic(fmt.Sprintf("BinBV %v sort mismatch %v %v", opNames[op], a.sort, b.sort))
	}
	w := a.sort.W
	if a.IsConst() && b.IsConst() {
		x, y := a.cval, b.cval
		var r uint64
		switch op {
		case OAdd:
			r = x + y
		case OSub:
			r = x - y
		case OMul:
			r = x * y
		case OUDiv:
			if y == 0 {
				r = mask(w)
			} else {
				r = x / y
			}
		case OURem:
			if y == 0 {
				r = x
			} else {
				r = x % y
			}
		case OSDiv:
			sx, sy := sext(x, w), sext(y, w)
			if sy == 0 {
				if sx < 0 {
					r = 1
				} else {
					r = mask(w)
				}
			} else if sy == -1 {
				r = uint64(-sx)
			} else {
				r = uint64(sx / sy)
			}
		case OSRem:
			sx, sy := sext(x, w), sext(y, w)
			if sy == 0 {
				r = x
			} else if sy == -1 {
				r = 0
			} else {
				r = uint64(sx % sy)
			}
		case OBAnd:
			r = x & y
		case OBOr:
			r = x | y
		case OBXor:
			r = x ^ y
		case OShl:
			if y >= uint64(w) {
				r = 0
			} else {
				r = x << y
			}
		case OLShr:
			if y >= uint64(w) {
				r = 0
			} else {
				r = x >> y
			}
		case OAShr:
			sx := sext(x, w)
			if y >= uint64(w) {
				if sx < 0 {
					r = mask(w)
				} else {
					r = 0
				}
			} else {
				r = uint64(sx >> y)
			}
		default:
			panic("BinBV op")
		}
		return tt.BVConst(r, w)
	}
	// light simplifications
	switch op {
	case OAdd, OBOr, OBXor:
		if a.IsConst() && a.cval == 0 {
			return b
		}
		if b.IsConst() && b.cval == 0 {
			return a
		}
	case OSub, OShl, OLShr, OAShr:
		if b.IsConst() && b.cval == 0 {
			return a
		}
		if op == OSub && a == b {
			return tt.BVConst(0, w)
		}
	case OMul:
		if a.IsConst() && a.cval == 1 {
			return b
		}
		if b.IsConst() && b.cval == 1 {
			return a
		}
		if (a.IsConst() && a.cval == 0) || (b.IsConst() && b.cval == 0) {
			return tt.BVConst(0, w)
		}
	case OBAnd:
		if a.IsConst() && a.cval == mask(w) {
			return b
		}
		if b.IsConst() && b.cval == mask(w) {
			return a
		}
		if (a.IsConst() && a.cval == 0) || (b.IsConst() && b.cval == 0) {
			return tt.BVConst(0, w)
		}
		if a == b {
			return a
		}
	}
	if (op == OBOr) && a == b {
		return a
	}
	return tt.mk(op, a.sort, 0, 0, 0, "", a, b)
}

func (tt *TermTable) CmpBV(op Op, a, b *Term) *Term {
	if a.sort != b.sort || a.sort.K != SBV {
		panic(fmt.Sprintf("CmpBV sort mismatch %v %v", a.sort, b.sort))
	}
	w := a.sort.W
	if a.IsConst() && b.IsConst() {
		x, y := a.cval, b.cval
		switch op {
		case OUlt:
			return tt.Bool(x < y)
		case OUle:
			return tt.Bool(x <= y)
		case OSlt:
			return tt.Bool(sext(x, w) < sext(y, w))
		case OSle:
			return tt.Bool(sext(x, w) <= sext(y, w))
		}
	}
	if a == b {
		return tt.Bool(op == OUle || op == OSle)
	}
	return tt.mk(op, BoolSort, 0, 0, 0, "", a, b)
}

func (tt *TermTable) Extract(a *Term, hi, lo int) *Term {
	if lo == 0 && hi == a.sort.W-1 {
		return a
	}
	if a.IsConst() {
		return tt.BVConst(a.cval>>uint(lo), hi-lo+1)
	}
	if a.op == OZExt || a.op == OSExt {
		inner := a.args[0]
		if hi < inner.sort.W {
			return tt.Extract(inner, hi, lo)
		}
		if a.op == OZExt && lo >= inner.sort.W {
			return tt.BVConst(0, hi-lo+1)
		}
	}
	if a.op == OConcat {
		lw := a.args[1].sort.W
		if hi < lw {
			return tt.Extract(a.args[1], hi, lo)
		}
		if lo >= lw {
			return tt.Extract(a.args[0], hi-lw, lo-lw)
		}
	}
	if a.op == OExtract {
		return tt.Extract(a.args[0], hi+a.p2, lo+a.p2)
	}
	return tt.mk(OExtract, BV(hi-lo+1), 0, hi, lo, "", a)
}

func (tt *TermTable) ZExt(a *Term, w int) *Term {
	if w == a.sort.W {
		return a
	}
	if w < a.sort.W {
		return tt.Extract(a, w-1, 0)
	}
	if a.IsConst() {
		return tt.BVConst(a.cval, w)
	}
	if a.op == OZExt {
		return tt.ZExt(a.args[0], w)
	}
	return tt.mk(OZExt, BV(w), 0, w-a.sort.W, 0, "", a)
}

func (tt *TermTable) SExt(a *Term, w int) *Term {
	if w == a.sort.W {
		return a
	}
	if w < a.sort.W {
		return tt.Extract(a, w-1, 0)
	}
	if a.IsConst() {
		return tt.BVConst(uint64(sext(a.cval, a.sort.W)), w)
	}
	if a.op == OZExt {
		return tt.ZExt(a.args[0], w)
	}
	return tt.mk(OSExt, BV(w), 0, w-a.sort.W, 0, "", a)
}

func (tt *TermTable) Concat(hi, lo *Term) *Term {
	w := hi.sort.W + lo.sort.W
	if hi.IsConst() && lo.IsConst() && w <= 64 {
		return tt.BVConst(hi.cval<<uint(lo.sort.W)|lo.cval, w)
	}
	return tt.mk(OConcat, BV(w), 0, 0, 0, "", hi, lo)
}

// ---- floating point ----

func fpVal(t *Term) float64 {
	if t.sort.W == 32 {
		return float64(math.Float32frombits(uint32(t.cval)))
	}
	return math.Float64frombits(t.cval)
}

func (tt *TermTable) fpFrom(f float64, w int) *Term {
	if w == 32 {
		return tt.FPConst32(float32(f))
	}
	return tt.FPConst64(f)
}

func (tt *TermTable) BinFP(op Op, a, b *Term) *Term {
	if a.sort != b.sort || a.sort.K != SFP {
		panic("BinFP sort mismatch")
	}
	if a.IsConst() && b.IsConst() {
		w := a.sort.W
		if w == 32 {
			x, y := math.Float32frombits(uint32(a.cval)), math.Float32frombits(uint32(b.cval))
			var r float32
			switch op {
			case OFAdd:
				r = x + y
			case OFSub:
				r = x - y
			case OFMul:
				r = x * y
			case OFDiv:
				r = x / y
			}
			return tt.FPConst32(r)
		}
		x, y := fpVal(a), fpVal(b)
		var r float64
		switch op {
		case OFAdd:
			r = x + y
		case OFSub:
			r = x - y
		case OFMul:
			r = x * y
		case OFDiv:
			r = x / y
		}
		return tt.FPConst64(r)
	}
	return tt.mk(op, a.sort, 0, 0, 0, "", a, b)
}

func (tt *TermTable) FNeg(a *Term) *Term {
	if a.IsConst() {
		if a.sort.W == 32 {
			return tt.FPConstBits(a.cval^(1<<31), 32)
		}
		return tt.FPConstBits(a.cval^(1<<63), 64)
	}
	return tt.mk(OFNeg, a.sort, 0, 0, 0, "", a)
}

func (tt *TermTable) CmpFP(op Op, a, b *Term) *Term {
	if a.sort != b.sort || a.sort.K != SFP {
		panic("CmpFP sort mismatch")
	}
	if a.IsConst() && b.IsConst() {
		x, y := fpVal(a), fpVal(b)
		switch op {
		case OFLt:
			return tt.Bool(x < y)
		case OFLe:
			return tt.Bool(x <= y)
		case OFEq:
			return tt.Bool(x == y)
		}
	}
	return tt.mk(op, BoolSort, 0, 0, 0, "", a, b)
}

func (tt *TermTable) FIsNaN(a *Term) *Term {
	if a.IsConst() {
		return tt.Bool(fpIsNaN(a.cval, a.sort.W))
	}
	return tt.mk(OFIsNaN, BoolSort, 0, 0, 0, "", a)
}

// IntToFP converts a bit-vector (signed or unsigned) to FP of width fw.
func (tt *TermTable) IntToFP(a *Term, signed bool, fw int) *Term {
	if a.IsConst() {
		var f float64
		if signed {
			f = float64(sext(a.cval, a.sort.W))
			if fw == 32 {
				return tt.FPConst32(float32(sext(a.cval, a.sort.W)))
			}
		} else {
			f = float64(a.cval)
			if fw == 32 {
				return tt.FPConst32(float32(a.cval))
			}
		}
		return tt.FPConst64(f)
	}
	op := OUToF
	if signed {
		op = OSToF
	}
	return tt.mk(op, FP(fw), 0, 0, 0, "", a)
}

// FPToInt converts FP to a bit-vector of width w.  NaN/out-of-range results
// follow amd64 (see fpToIntAMD64 in ops.go); here only the in-range SMT op.
func (tt *TermTable) FPToIntRaw(a *Term, signed bool, w int) *Term {
	op := OFToU
	if signed {
		op = OFToS
	}
	return tt.mk(op, BV(w), 0, w, 0, "", a)
}

func (tt *TermTable) FPToFP(a *Term, fw int) *Term {
	if a.sort.W == fw {
		return a
	}
	if a.IsConst() {
		if fw == 32 {
			return tt.FPConst32(float32(fpVal(a)))
		}
		return tt.FPConst64(fpVal(a))
	}
	return tt.mk(OFToF, FP(fw), 0, 0, 0, "", a)
}

func (tt *TermTable) BitsToFP(a *Term) *Term {
	if a.IsConst() {
		return tt.FPConstBits(a.cval, a.sort.W)
	}
	return tt.mk(OBitsF, FP(a.sort.W), 0, 0, 0, "", a)
}

// ---- printing ----

func bvLit(v uint64, w int) string {
	if w%4 == 0 {
		return fmt.Sprintf("#x%0*x", w/4, v&mask(w))
	}
	return fmt.Sprintf("#b%0*b", w, v&mask(w))
}

func fpLit(b uint64, w int) string {
	if w == 32 {
		return fmt.Sprintf("(fp #b%b #b%08b #b%023b)", (b>>31)&1, (b>>23)&0xff, b&0x7fffff)
	}
	return fmt.Sprintf("(fp #b%b #b%011b #b%052b)", (b>>63)&1, (b>>52)&0x7ff, b&((1<<52)-1))
}

// head renders the operator application of t given already rendered args.
func (t *Term) render(args []string) string {
	switch t.op {
	case OConst:
		switch t.sort.K {
		case SBool:
			if t.cval == 1 {
				return "true"
			}
			return "false"
		case SBV:
			return bvLit(t.cval, t.sort.W)
		case SFP:
			return fpLit(t.cval, t.sort.W)
		}
	case OVar:
		return "|" + t.name + "|"
	case OExtract:
		return fmt.Sprintf("((_ extract %d %d) %s)", t.p1, t.p2, args[0])
	case OZExt:
		return fmt.Sprintf("((_ zero_extend %d) %s)", t.p1, args[0])
	case OSExt:
		return fmt.Sprintf("((_ sign_extend %d) %s)", t.p1, args[0])
	case OSToF:
		return fmt.Sprintf("((_ to_fp %s) RNE %s)", fpParams(t.sort.W), args[0])
	case OUToF:
		return fmt.Sprintf("((_ to_fp_unsigned %s) RNE %s)", fpParams(t.sort.W), args[0])
	case OFToS:
		return fmt.Sprintf("((_ fp.to_sbv %d) RTZ %s)", t.p1, args[0])
	case OFToU:
		return fmt.Sprintf("((_ fp.to_ubv %d) RTZ %s)", t.p1, args[0])
	case OFToF:
		return fmt.Sprintf("((_ to_fp %s) RNE %s)", fpParams(t.sort.W), args[0])
	case OBitsF:
		return fmt.Sprintf("((_ to_fp %s) %s)", fpParams(t.sort.W), args[0])
	}
	return "(" + opNames[t.op] + " " + strings.Join(args, " ") + ")"
}

func fpParams(w int) string {
	if w == 32 {
		return "8 24"
	}
	return "11 53"
}

// Eval evaluates t under an assignment of variables (by name) to values.
// Only BV/Bool are supported fully; FP ops use Go arithmetic (RNE).
func (tt *TermTable) Eval(t *Term, env map[string]uint64, memo map[*Term]uint64) uint64 {
	if t.op == OConst {
		return t.cval
	}
	if v, ok := memo[t]; ok {
		return v
	}
	var r uint64
	switch t.op {
	case OVar:
		r = env[t.name] & maskSort(t.sort)
	default:
		as := make([]*Term, len(t.args))
		for i, a := range t.args {
			v := tt.Eval(a, env, memo)
			as[i] = tt.mk(OConst, a.sort, v, 0, 0, "")
		}
		c := tt.rebuild(t, as)
		if !c.IsConst() {
			panic("Eval: non-constant result for op " + opNames[t.op])
		}
		r = c.cval
	}
	memo[t] = r
	return r
}

func maskSort(s Sort) uint64 {
	switch s.K {
	case SBool:
		return 1
	default:
		return mask(s.W)
	}
}

// rebuild re-applies t's operator to new args (used by Eval; folds constants).
func (tt *TermTable) rebuild(t *Term, a []*Term) *Term {
	switch t.op {
	case ONot:
		return tt.Not(a[0])
	case OAnd:
		return tt.And(a[0], a[1])
	case OOr:
		return tt.Or(a[0], a[1])
	case OIte:
		return tt.Ite(a[0], a[1], a[2])
	case OEq:
		return tt.Eq(a[0], a[1])
	case OAdd, OSub, OMul, OUDiv, OSDiv, OURem, OSRem, OBAnd, OBOr, OBXor, OShl, OLShr, OAShr:
		return tt.BinBV(t.op, a[0], a[1])
	case OUlt, OUle, OSlt, OSle:
		return tt.CmpBV(t.op, a[0], a[1])
	case OExtract:
		return tt.Extract(a[0], t.p1, t.p2)
	case OZExt:
		return tt.ZExt(a[0], t.sort.W)
	case OSExt:
		return tt.SExt(a[0], t.sort.W)
	case OConcat:
		return tt.Concat(a[0], a[1])
	case OFAdd, OFSub, OFMul, OFDiv:
		return tt.BinFP(t.op, a[0], a[1])
	case OFNeg:
		return tt.FNeg(a[0])
	case OFLt, OFLe, OFEq:
		return tt.CmpFP(t.op, a[0], a[1])
	case OFIsNaN:
		return tt.FIsNaN(a[0])
	case OSToF:
		return tt.IntToFP(a[0], true, t.sort.W)
	case OUToF:
		return tt.IntToFP(a[0], false, t.sort.W)
	case OFToF:
		return tt.FPToFP(a[0], t.sort.W)
	case OBitsF:
		return tt.BitsToFP(a[0])
	case OFToS, OFToU:
		f := fpVal(a[0])
		if f != f {
			return tt.BVConst(0, t.sort.W)
		}
		tr := math.Trunc(f)
		if t.op == OFToS {
			return tt.BVConst(uint64(int64(tr)), t.sort.W)
		}
		if tr >= 9223372036854775808.0 {
			return tt.BVConst(uint64(tr-9223372036854775808.0)+(1<<63), t.sort.W)
		}
		return tt.BVConst(uint64(tr), t.sort.W)
	}
	panic("rebuild: op")
}

var _ = bits.Len
