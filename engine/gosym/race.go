package main

// Happens-before data-race detection for harnesses that run under
// verif.Schedules and opt in with verif.Races(true).
//
// Every interpreted goroutine carries a vector clock; lock/unlock, channel
// send/receive/close, WaitGroup Done/Wait, atomics, sync.Pool Put/Get and
// goroutine start transfer clocks the way the Go memory model orders them.
// Loads and stores through pointers (fields, elements, globals) and map
// operations are checked against the last write / the reads recorded for the
// cell: an access that is not ordered after a conflicting access of another
// goroutine is a race CANDIDATE on the explored schedule.  Candidates are
// confirmed natively with the Go race detector (`go test -race` build of the
// replay binary); an unconfirmed candidate is dropped (modelled
// happens-before edges may be missing), a confirmed one is the violation
// `data-race`.  copy and append are tracked element by element; whole-value
// stores over an existing struct or array are tracked as one cell only (a race
// with an access to a single field of it is missed, never invented).

import (
	"fmt"
)

type vclock []uint32

func (a vclock) get(i int) uint32 {
	if i < len(a) {
		return a[i]
	}
	return 0
}

func vcJoin(a, b vclock) vclock {
	if len(b) > len(a) {
		n := make(vclock, len(b))
		copy(n, a)
		a = n
	}
	for i, x := range b {
		if x > a[i] {
			a[i] = x
		}
	}
	return a
}

func vcCopy(a vclock) vclock { return append(vclock(nil), a...) }

type raceCell struct {
	wg    int // last writer goroutine (-1 none)
	wclk  uint32
	wsite string
	reads map[int]uint32
}

type raceState struct {
	on       bool
	sync     map[interface{}]vclock
	cells    map[interface{}]*raceCell
	reported bool
	inAtomic int
}

func (in *Interp) raceOn() bool {
	return in.sc != nil && in.sc.enabled && in.sc.race != nil && in.sc.race.on && in.sc.race.inAtomic == 0 && len(in.sc.all) > 1 && in.initDepth == 0
}

// raceAtomic brackets an atomic operation on the cell p points to: it is a
// synchronisation (acquire before, release after), not a plain access.
func (in *Interp) raceAtomic(pv Value) func() {
	p, ok := pv.(Ptr)
	if !ok || p.isNil() || p.sym != nil || !in.raceOn() {
		return func() {}
	}
	cell := interface{}(&p.base[p.i])
	in.raceAcquire(cell)
	in.sc.race.inAtomic++
	return func() {
		in.sc.race.inAtomic--
		in.raceRelease(cell)
	}
}

func (g *gor) tick() {
	for len(g.vc) <= g.id {
		g.vc = append(g.vc, 0)
	}
	g.vc[g.id]++
}

// raceRelease: the current goroutine's past becomes visible to whoever
// acquires obj later.
func (in *Interp) raceRelease(obj interface{}) {
	if !in.raceOn() {
		return
	}
	r := in.sc.race
	g := in.sc.cur
	r.sync[obj] = vcJoin(vcCopy(r.sync[obj]), g.vc)
	g.tick()
}

func (in *Interp) raceAcquire(obj interface{}) {
	if !in.raceOn() {
		return
	}
	g := in.sc.cur
	g.vc = vcJoin(g.vc, in.sc.race.sync[obj])
}

func (in *Interp) raceSite(fr *frame) string {
	if fr == nil {
		fr = in.curFrame
	}
	if fr == nil {
		return "?"
	}
	return fr.fn.String()
}

func (in *Interp) raceAccess(fr *frame, cell interface{}, write bool) {
	if !in.raceOn() {
		return
	}
	r := in.sc.race
	g := in.sc.cur
	if len(g.vc) <= g.id {
		g.tick()
	}
	c := r.cells[cell]
	if c == nil {
		c = &raceCell{wg: -1}
		r.cells[cell] = c
	}
	racy := func(og int, oclk uint32) bool {
		return og >= 0 && og != g.id && oclk > g.vc.get(og)
	}
	var other int = -1
	osite := ""
	if racy(c.wg, c.wclk) {
		other, osite = c.wg, c.wsite
	}
	if write && other < 0 {
		for og, oclk := range c.reads {
			if racy(og, oclk) {
				other, osite = og, "(read)"
				break
			}
		}
	}
	if other >= 0 && !r.reported {
		r.reported = true
		kind := "read"
		if write {
			kind = "write"
		}
		func() {
			defer func() { recover() }()
			if in.ensureModel() {
				in.onViolation(Violation{Harness: "", ID: "data-race", Msg: fmt.Sprintf("unordered conflicting accesses: %s by goroutine %d in %s after an access by goroutine %d in %s (candidate on the explored schedule; confirmed natively with the Go race detector)", kind, g.id, in.raceSite(fr), other, osite), Inputs: in.modelInputs(in.model)})
			}
		}()
	}
	if write {
		c.wg, c.wclk, c.wsite = g.id, g.vc.get(g.id), in.raceSite(fr)
		c.reads = nil
	} else {
		if c.reads == nil {
			c.reads = map[int]uint32{}
		}
		c.reads[g.id] = g.vc.get(g.id)
	}
}
