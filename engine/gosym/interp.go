package main

// Path-forking symbolic interpreter over go/ssa.
// Structure follows golang.org/x/tools/go/ssa/interp (BSD licence) but every
// scalar is an SMT term and branches on undetermined conditions fork.

import (
	"fmt"
	"go/constant"
	"go/token"
	"go/types"
	"os"
	"sort"
	"strings"

	"golang.org/x/tools/go/ssa"
)

// ---- control-flow exceptions (Go panics used to unwind the interpreter) ----

// targetPanic is a panic of the interpreted program.
type targetPanic struct {
	v   Value
	msg string
}

// pathEnd aborts the current path for an engine-level reason.
type pathEnd struct {
	kind string // "infeasible", "unsupported", "limit", "done"
	msg  string
}

type fnInfo struct {
	index  map[ssa.Value]int
	n      int
	consts map[*ssa.Const]Value
}

type deferred struct {
	fn    Value
	args  []Value
	instr *ssa.Defer
	tail  *deferred
}

type frame struct {
	in        *Interp
	caller    *frame
	fn        *ssa.Function
	info      *fnInfo
	block     *ssa.BasicBlock
	prevBlock *ssa.BasicBlock
	env       []Value
	defers    *deferred
	result    Value
	panicking bool
	panicVal  *targetPanic
	symVisits map[*ssa.BasicBlock]int
	depth     int
}

type Decision struct {
	Val  uint64
	Excl []uint64 // for "other values" concretisation items
	Kind byte     // 'b' branch, 'c' choose, 'v' value
	N    int      // 'c': number of alternatives when the decision was made (replay check)
	Site string   // 'c': where (replay check)
}

type Input struct {
	Name string
	Kind string // u8,u16,u32,u64,i8..,bool,choose,f64,f32
	Term *Term  // nil for concrete choose
	Conc uint64
}

type Violation struct {
	Harness string
	ID      string
	Msg     string
	Inputs  []ReplayInput
	Stack   string
}

type ReplayInput struct {
	Name  string `json:"name"`
	Kind  string `json:"kind"`
	Value uint64 `json:"value"`
}

type Config struct {
	MaxSteps     int
	MaxDecisions int
	Unwind       int
	MaxConcretize int
	Debug        bool
}

type Interp struct {
	uniqueTab map[string]Ptr // unique.Make handles (per interpreter, across paths)
	skipIntrinsic string // name of a function whose intrinsic is bypassed for the next call (the real body runs)
	prog    *ssa.Program
	tt      *TermTable
	solver  *Solver
	solverAlt map[string]*Solver // per-kind solvers of this worker (verif:solver directive)
	cfg     Config
	globals map[*ssa.Global]Ptr
	pkgInit map[*ssa.Package]int
	fnInfos map[*ssa.Function]*fnInfo
	fnVals  map[*ssa.Function]*Closure
	byteC   [256]*Term
	initDepth int
	warnings map[string]int

	// per path
	pc       []*Term
	pcSynced int
	prefix   []Decision
	pos      int
	trace    []Decision
	model    map[string]uint64
	modelOK  bool
	memo     map[*Term]uint64
	inputs   []Input
	inputSeq map[string]int
	steps    int
	harness  string
	onceDone map[string]bool
	observes []Observation
	reached  map[string]bool
	mapOrderArbitrary bool
	goInlined int
	unwindOverride int
	pendingObs []pendingObs
	thorough bool
	pathVars []*Term
	marshalTab map[uint64]marshalEntry
	marshalSeq uint64
	marshalByKey map[string]uint64
	pools map[string][]Value
	sc *sched
	fpBitsMemo map[*Term]*Term // per path: math.Float64bits of the same FP term yields the same bits variable

	// sinks
	onFork      func(prefix []Decision, model map[string]uint64)
	onViolation func(v Violation)
	funcsSeen   map[string]bool
	stubsHit    map[string]int
	nForks      int
	nQueries    int
	nTrivial    int
	curFrame    *frame
	forkSites   map[string]int
	nLocalPaths int
}

type Observation struct {
	Name string
	Val  string
}

func NewInterp(prog *ssa.Program, solver *Solver, cfg Config) *Interp {
	in := &Interp{
		prog: prog, tt: NewTermTable(), solver: solver, cfg: cfg,
		globals: map[*ssa.Global]Ptr{}, pkgInit: map[*ssa.Package]int{},
		fnInfos: map[*ssa.Function]*fnInfo{}, fnVals: map[*ssa.Function]*Closure{},
		funcsSeen: map[string]bool{}, stubsHit: map[string]int{}, warnings: map[string]int{},
	}
	for i := 0; i < 256; i++ {
		in.byteC[i] = in.tt.BVConst(uint64(i), 8)
	}
	return in
}

func (in *Interp) warn(s string) {
	in.warnings[s]++
	if in.cfg.Debug && in.warnings[s] == 1 {
		fmt.Fprintln(os.Stderr, "WARN:", s)
	}
}

func unsupported(format string, a ...interface{}) {
	panic(pathEnd{"unsupported", fmt.Sprintf(format, a...)})
}

// ---- path condition, decisions ----

func (in *Interp) resetPath(prefix []Decision, model map[string]uint64) {
	in.pc = in.pc[:0]
	in.pcSynced = 0
	in.prefix = prefix
	in.pos = 0
	in.trace = in.trace[:0]
	in.model = model
	in.modelOK = model != nil
	if in.model == nil {
		in.model = map[string]uint64{}
		in.modelOK = true // empty PC: every assignment is a model
	}
	in.memo = map[*Term]uint64{}
	in.inputs = nil
	in.inputSeq = map[string]int{}
	in.steps = 0
	in.onceDone = map[string]bool{}
	in.observes = nil
	in.reached = map[string]bool{}
	in.mapOrderArbitrary = false
	in.goInlined = 0
	in.unwindOverride = 0
	in.pendingObs = nil
	in.pathVars = nil
	in.marshalTab = nil
	in.marshalSeq = 0
	in.marshalByKey = nil
	in.pools = nil
	in.schedReset()
	in.fpBitsMemo = nil
	in.solver.Reset()
}

func (in *Interp) evalModel(t *Term) (v uint64, ok bool) {
	if !in.modelOK {
		return 0, false
	}
	defer func() {
		if r := recover(); r != nil {
			ok = false
		}
	}()
	return in.tt.Eval(t, in.model, in.memo), true
}

func (in *Interp) addPC(c *Term) {
	if c.IsTrue() {
		return
	}
	in.pc = append(in.pc, c)
	if in.modelOK {
		if v, ok := in.evalModel(c); !ok || v != 1 {
			in.modelOK = false
		}
	}
}

func (in *Interp) syncSolver() {
	for ; in.pcSynced < len(in.pc); in.pcSynced++ {
		in.solver.Assert(in.pc[in.pcSynced])
	}
}

// check asks whether PC ∧ extra is satisfiable; on sat fetches a model.
func (in *Interp) check(extra *Term) (string, map[string]uint64) {
	in.syncSolver()
	in.nQueries++
	var res string
	if extra == nil {
		res = in.solver.CheckWith()
	} else {
		res = in.solver.CheckWith(extra)
	}
	var m map[string]uint64
	if res == "sat" {
		var err error
		m, err = in.solver.Values(in.pathVars)
		if err != nil {
			in.solver.Errors = append(in.solver.Errors, err.Error())
			res = "error"
		}
	}
	in.solver.Done()
	if res == "error" || res == "unknown" {
		msg := res
		if len(in.solver.Errors) > 0 {
			msg += ": " + in.solver.Errors[len(in.solver.Errors)-1]
			in.solver.Errors = nil
		}
		panic(pathEnd{"solver", msg})
	}
	return res, m
}

func (in *Interp) setModel(m map[string]uint64) {
	in.model = m
	in.modelOK = true
	in.memo = map[*Term]uint64{}
}

// ensureModel makes sure a model of the current PC is available; returns
// false if PC is unsatisfiable.
func (in *Interp) ensureModel() bool {
	if in.modelOK {
		return true
	}
	res, m := in.check(nil)
	if res != "sat" {
		return false
	}
	in.setModel(m)
	return true
}

func (in *Interp) nextPrefix() (Decision, bool) {
	if in.pos < len(in.prefix) {
		d := in.prefix[in.pos]
		in.pos++
		return d, true
	}
	return Decision{}, false
}

func (in *Interp) record(d Decision) {
	in.trace = append(in.trace, d)
	if len(in.trace) > in.cfg.MaxDecisions {
		panic(pathEnd{"limit", fmt.Sprintf("more than %d symbolic decisions on one path", in.cfg.MaxDecisions)})
	}
}

func (in *Interp) fork(d Decision, model map[string]uint64) {
	p := make([]Decision, len(in.trace)+1)
	copy(p, in.trace)
	p[len(in.trace)] = d
	in.nForks++
	if in.forkSites != nil {
		site := "harness-level"
		if in.curFrame != nil {
			site = in.curFrame.fn.String()
			if in.curFrame.caller != nil {
				site += " <- " + in.curFrame.caller.fn.String()
			}
		}
		in.forkSites[string(d.Kind)+" "+site]++
	}
	if in.onFork != nil {
		in.onFork(p, model)
	}
}

// decide returns the truth value of c on this path, forking if both are
// feasible.
func (in *Interp) decide(c *Term) bool {
	if c.IsConst() {
		return c.cval == 1
	}
	if d, ok := in.nextPrefix(); ok {
		b := d.Val == 1
		if b {
			in.addPC(c)
		} else {
			in.addPC(in.tt.Not(c))
		}
		in.record(d)
		return b
	}
	if in.curFrame != nil {
		fr := in.curFrame
		if fr.symVisits == nil {
			fr.symVisits = map[*ssa.BasicBlock]int{}
		}
		fr.symVisits[fr.block]++
		uw := in.cfg.Unwind
		if in.unwindOverride > 0 {
			uw = in.unwindOverride
		}
		if fr.symVisits[fr.block] > uw {
			panic(pathEnd{"limit", fmt.Sprintf("unwinding assertion: block %s.%d decided symbolically more than %d times", fr.fn, fr.block.Index, uw)})
		}
	}
	if !in.ensureModel() {
		panic(pathEnd{"infeasible", "pc unsat"})
	}
	v, ok := in.evalModel(c)
	if !ok {
		// cannot evaluate: ask solver about 'true' side
		res, m := in.check(c)
		if res == "sat" {
			in.setModel(m)
			v = 1
		} else {
			v = 0
			// PC sat and c unsat => not c holds on every model
			in.addPCNoEval(in.tt.Not(c))
			in.record(Decision{Val: 0, Kind: 'b'})
			in.nTrivial++
			return false
		}
	}
	taken := v == 1
	other := in.tt.Not(c)
	if !taken {
		other = c
	}
	res, m := in.check(other)
	if res == "sat" {
		od := Decision{Kind: 'b'}
		if !taken {
			od.Val = 1
		}
		in.fork(od, m)
	} else {
		in.nTrivial++
	}
	if taken {
		in.addPC(c)
		in.record(Decision{Val: 1, Kind: 'b'})
	} else {
		in.addPC(in.tt.Not(c))
		in.record(Decision{Val: 0, Kind: 'b'})
	}
	return taken
}

func (in *Interp) addPCNoEval(c *Term) {
	in.pc = append(in.pc, c)
	in.modelOK = false
}

// assume adds c to the path condition, ending the path if that is infeasible.
func (in *Interp) assume(c *Term) {
	if c.IsTrue() {
		return
	}
	if c.IsFalse() {
		panic(pathEnd{"infeasible", "assume false"})
	}
	if in.pos < len(in.prefix) {
		// replaying: feasibility was established when the prefix was created
		in.addPC(c)
		return
	}
	if v, ok := in.evalModel(c); ok && v == 1 {
		in.addPC(c)
		return
	}
	res, m := in.check(c)
	if res != "sat" {
		panic(pathEnd{"infeasible", "assume"})
	}
	in.addPC(c)
	in.setModel(m)
}

// choose forks n ways (concrete result).
func (in *Interp) choose(n int) int {
	if n <= 1 {
		return 0
	}
	site := ""
	if in.curFrame != nil {
		site = in.curFrame.fn.String()
	}
	if d, ok := in.nextPrefix(); ok {
		if d.Kind != 'c' || (d.N != 0 && d.N != n) || (d.Site != "" && d.Site != site) {
			panic(pathEnd{"unsupported", fmt.Sprintf("engine nondeterminism: the re-execution of a decision prefix reached a choice of %d at %s where the first execution had a %c-decision of %d at %s", n, site, d.Kind, d.N, d.Site)})
		}
		in.record(d)
		return int(d.Val)
	}
	for i := 1; i < n; i++ {
		var m map[string]uint64
		if in.modelOK {
			m = in.model
		}
		in.fork(Decision{Val: uint64(i), Kind: 'c', N: n, Site: site}, m)
	}
	in.record(Decision{Val: 0, Kind: 'c', N: n, Site: site})
	return 0
}

// concretize picks a concrete value for t, forking over the others.
func (in *Interp) concretize(t *Term, what string) uint64 {
	if t.IsConst() {
		return t.cval
	}
	var excl []uint64
	if d, ok := in.nextPrefix(); ok {
		if d.Excl == nil {
			in.addPC(in.tt.Eq(t, in.tt.BVConst(d.Val, t.sort.W)))
			in.record(d)
			return d.Val
		}
		excl = d.Excl
		for _, e := range excl {
			in.addPC(in.tt.Not(in.tt.Eq(t, in.tt.BVConst(e, t.sort.W))))
		}
	}
	if len(excl) >= in.cfg.MaxConcretize {
		panic(pathEnd{"limit", fmt.Sprintf("concretisation of %s has more than %d values", what, in.cfg.MaxConcretize)})
	}
	if !in.ensureModel() {
		panic(pathEnd{"infeasible", "pc unsat"})
	}
	v, ok := in.evalModel(t)
	if !ok {
		res, m := in.check(nil)
		if res != "sat" {
			panic(pathEnd{"infeasible", "pc unsat"})
		}
		in.setModel(m)
		v, ok = in.evalModel(t)
		if !ok {
			unsupported("cannot evaluate term for concretisation of %s", what)
		}
	}
	// is another value possible?
	nexcl := append(append([]uint64(nil), excl...), v)
	ne := in.tt.Not(in.tt.Eq(t, in.tt.BVConst(v, t.sort.W)))
	res, m := in.check(ne)
	if res == "sat" {
		in.fork(Decision{Kind: 'v', Excl: nexcl}, m)
	}
	in.addPC(in.tt.Eq(t, in.tt.BVConst(v, t.sort.W)))
	in.record(Decision{Val: v, Kind: 'v'})
	return v
}

// ---- function info ----

func (in *Interp) info(fn *ssa.Function) *fnInfo {
	if fi, ok := in.fnInfos[fn]; ok {
		return fi
	}
	fi := &fnInfo{index: map[ssa.Value]int{}, consts: map[*ssa.Const]Value{}}
	n := 0
	for _, p := range fn.Params {
		fi.index[p] = n
		n++
	}
	for _, p := range fn.FreeVars {
		fi.index[p] = n
		n++
	}
	for _, b := range fn.Blocks {
		for _, ins := range b.Instrs {
			if v, ok := ins.(ssa.Value); ok {
				fi.index[v] = n
				n++
			}
		}
	}
	fi.n = n
	in.fnInfos[fn] = fi
	return fi
}

func (in *Interp) funcValue(fn *ssa.Function) *Closure {
	if c, ok := in.fnVals[fn]; ok {
		return c
	}
	c := &Closure{fn: fn}
	in.fnVals[fn] = c
	return c
}

func (fr *frame) get(key ssa.Value) Value {
	switch key := key.(type) {
	case *ssa.Const:
		if v, ok := fr.info.consts[key]; ok {
			return v
		}
		v := fr.in.constValue(key)
		fr.info.consts[key] = v
		return v
	case *ssa.Global:
		return fr.in.globalPtr(key)
	case *ssa.Function:
		return fr.in.funcValue(key)
	case *ssa.Builtin:
		return key
	}
	if i, ok := fr.info.index[key]; ok {
		v := fr.env[i]
		if v == nil {
			panic(fmt.Sprintf("get: nil value for %s in %s", key.Name(), fr.fn))
		}
		return v
	}
	panic(fmt.Sprintf("get: no value for %T %s in %s", key, key.Name(), fr.fn))
}

func (fr *frame) set(key ssa.Value, v Value) {
	fr.env[fr.info.index[key]] = v
}

// ---- constants and zero values ----

func intInfo(t types.Type) (w int, signed bool, ok bool) {
	b, isb := t.Underlying().(*types.Basic)
	if !isb {
		return 0, false, false
	}
	switch b.Kind() {
	case types.Int8:
		return 8, true, true
	case types.Int16:
		return 16, true, true
	case types.Int32:
		return 32, true, true
	case types.Int64, types.Int:
		return 64, true, true
	case types.Uint8:
		return 8, false, true
	case types.Uint16:
		return 16, false, true
	case types.Uint32:
		return 32, false, true
	case types.Uint64, types.Uint, types.Uintptr:
		return 64, false, true
	case types.UntypedInt, types.UntypedRune:
		return 64, true, true
	}
	return 0, false, false
}

func floatWidth(t types.Type) int {
	b, isb := t.Underlying().(*types.Basic)
	if !isb {
		return 0
	}
	switch b.Kind() {
	case types.Float32:
		return 32
	case types.Float64, types.UntypedFloat:
		return 64
	}
	return 0
}

func isString(t types.Type) bool {
	b, ok := t.Underlying().(*types.Basic)
	return ok && b.Info()&types.IsString != 0
}

func isBool(t types.Type) bool {
	b, ok := t.Underlying().(*types.Basic)
	return ok && b.Info()&types.IsBoolean != 0
}

func (in *Interp) str(s string) *Str { return &Str{s: s} }

func (in *Interp) constValue(c *ssa.Const) Value {
	t := c.Type()
	if c.Value == nil {
		return in.zero(t)
	}
	if tp, ok := t.(*types.TypeParam); ok {
		_ = tp
		unsupported("constant of type parameter type")
	}
	switch u := t.Underlying().(type) {
	case *types.Basic:
		if w, _, ok := intInfo(u); ok {
			if v, exact := constant.Int64Val(constant.ToInt(c.Value)); exact {
				return in.tt.BVConst(uint64(v), w)
			}
			v, _ := constant.Uint64Val(constant.ToInt(c.Value))
			return in.tt.BVConst(v, w)
		}
		if fw := floatWidth(u); fw != 0 {
			f, _ := constant.Float64Val(c.Value)
			if fw == 32 {
				f32, _ := constant.Float32Val(c.Value)
				return in.tt.FPConst32(f32)
			}
			return in.tt.FPConst64(f)
		}
		if u.Info()&types.IsBoolean != 0 {
			return in.tt.Bool(constant.BoolVal(c.Value))
		}
		if u.Info()&types.IsString != 0 {
			if c.Value.Kind() == constant.String {
				return in.str(constant.StringVal(c.Value))
			}
			// string(rune) constant
			v, _ := constant.Int64Val(c.Value)
			return in.str(string(rune(v)))
		}
		if u.Kind() == types.UnsafePointer {
			return Ptr{}
		}
	case *types.Interface:
		// a constant converted to interface (generic code); not expected
	}
	unsupported("constant %v of type %v", c.Value, t)
	return nil
}

func (in *Interp) zero(t types.Type) Value {
	switch u := t.Underlying().(type) {
	case *types.Basic:
		if w, _, ok := intInfo(u); ok {
			return in.tt.BVConst(0, w)
		}
		if fw := floatWidth(u); fw != 0 {
			return in.tt.FPConstBits(0, fw)
		}
		if u.Info()&types.IsBoolean != 0 {
			return in.tt.Bool(false)
		}
		if u.Info()&types.IsString != 0 {
			return in.str("")
		}
		if u.Kind() == types.UnsafePointer {
			return Ptr{}
		}
		if u.Kind() == types.UntypedNil {
			return Iface{}
		}
		if u.Kind() == types.Complex128 || u.Kind() == types.Complex64 {
			return Bad{}
		}
		unsupported("zero of basic type %v", u)
	case *types.Pointer:
		return Ptr{}
	case *types.Slice:
		return Slice(nil)
	case *types.Map:
		return (*Map)(nil)
	case *types.Chan:
		return (*Chan)(nil)
	case *types.Signature:
		return (*Closure)(nil)
	case *types.Interface:
		return Iface{}
	case *types.Struct:
		s := make(Struct, u.NumFields())
		for i := range s {
			s[i] = in.zero(u.Field(i).Type())
		}
		return s
	case *types.Array:
		n := int(u.Len())
		a := make(Array, n)
		if n > 0 {
			z := in.zero(u.Elem())
			switch z.(type) {
			case Struct, Array:
				a[0] = z
				for i := 1; i < n; i++ {
					a[i] = copyVal(z)
				}
			default:
				for i := range a {
					a[i] = z
				}
			}
		}
		return a
	case *types.Tuple:
		tu := make(Tuple, u.Len())
		for i := range tu {
			tu[i] = in.zero(u.At(i).Type())
		}
		return tu
	}
	unsupported("zero of type %v", t)
	return nil
}

// ---- globals and package init ----

func (in *Interp) globalPtr(g *ssa.Global) Ptr {
	if p, ok := in.globals[g]; ok {
		if in.pkgInit[g.Pkg] == 0 {
			in.ensureInit(g.Pkg)
		}
		return p
	}
	elem := g.Type().(*types.Pointer).Elem()
	p := Ptr{base: []Value{in.zero(elem)}, i: 0}
	in.globals[g] = p
	if in.pkgInit[g.Pkg] == 0 {
		in.ensureInit(g.Pkg)
	}
	return p
}

var skipInitPkgs = map[string]bool{
	"runtime": true, "os": true, "syscall": true, "reflect": true, "internal/reflectlite": true,
	"internal/poll": true, "internal/cpu": true, "internal/godebug": true, "net": true,
	"os/signal": true, "os/exec": true, "os/user": true, "crypto/rand": true, "math/rand": true, "math/rand/v2": true,
	"testing": true, "flag": true, "log": true, "net/http": true, "crypto/tls": true, "crypto/x509": true,
	"go.uber.org/zap": true, "go.uber.org/zap/zapcore": true, "internal/testlog": true,
	"time": true, "fmt": true, "encoding/json": true, "sync": true, "internal/bytealg": true,
	"internal/syscall/unix": true, "internal/abi": true, "vendor/golang.org/x/sys/cpu": true, "golang.org/x/sys/cpu": true,
	"golang.org/x/sys/unix": true, "hash/crc32": true, "regexp": false,
}

func (in *Interp) ensureInit(pkg *ssa.Package) {
	if pkg == nil || in.pkgInit[pkg] != 0 {
		return
	}
	in.pkgInit[pkg] = 1
	defer func() { in.pkgInit[pkg] = 2 }()
	if skipInitPkgs[pkg.Pkg.Path()] {
		if pkg.Pkg.Path() == "os" {
			// os's init is environment (files, args); its error sentinels are
			// aliases of io/fs's and are needed by errors.Is / == tests
			if fs := in.prog.ImportedPackage("io/fs"); fs != nil {
				for _, n := range []string{"ErrInvalid", "ErrPermission", "ErrExist", "ErrNotExist", "ErrClosed"} {
					if og, fg := pkg.Var(n), fs.Var(n); og != nil && fg != nil {
						src := in.globalPtr(fg)
						dst, ok := in.globals[og]
						if !ok {
							dst = Ptr{base: []Value{Iface{}}, i: 0}
							in.globals[og] = dst
						}
						dst.base[dst.i] = src.base[src.i]
					}
				}
			}
		}
		return
	}
	initFn := pkg.Func("init")
	if initFn == nil || initFn.Blocks == nil {
		return
	}
	// run concretely; isolate engine state from the current path
	in.initDepth++
	saveFrame := in.curFrame
	defer func() {
		in.initDepth--
		in.curFrame = saveFrame
		if r := recover(); r != nil {
			switch r := r.(type) {
			case pathEnd:
				in.warn(fmt.Sprintf("init of %s abandoned: %s %s", pkg.Pkg.Path(), r.kind, r.msg))
			case *targetPanic:
				in.warn(fmt.Sprintf("init of %s panicked: %s", pkg.Pkg.Path(), r.msg))
			default:
				if _, isStr := r.(string); isStr {
					panic(r)
				}
				panic(fmt.Sprintf("%v (engine-level failure while running init of %s)", r, pkg.Pkg.Path()))
			}
		}
	}()
	in.callSSA(nil, initFn, nil, nil)
}

// ---- calls ----

func (in *Interp) callValue(caller *frame, fnv Value, args []Value) Value {
	switch fn := fnv.(type) {
	case *Closure:
		if fn == nil {
			in.throw(caller, "invalid memory address or nil pointer dereference (call of nil func)")
		}
		return in.callSSA(caller, fn.fn, args, fn.env)
	case *ssa.Builtin:
		return in.callBuiltin(caller, fn, args)
	}
	panic(fmt.Sprintf("call of non-function %T", fnv))
}

func (in *Interp) callSSA(caller *frame, fn *ssa.Function, args []Value, env []Value) Value {
	name := fn.String()
	if fn.Synthetic == "package initializer" && caller != nil {
		// other packages are initialised lazily, on first access to a global
		return nil
	}
	if in.skipIntrinsic == name {
		// an intrinsic asked for the real body this once
		in.skipIntrinsic = ""
	} else if intr := lookupIntrinsic(fn, name); intr != nil {
		in.stubsHit[name]++
		return intr(in, caller, fn, args)
	}
	if fn.Blocks == nil {
		unsupported("no body for function %s", name)
	}
	if in.initDepth == 0 {
		in.funcsSeen[name] = true
	}
	fi := in.info(fn)
	fr := &frame{in: in, caller: caller, fn: fn, info: fi, env: make([]Value, fi.n)}
	if caller != nil {
		fr.depth = caller.depth + 1
		if fr.depth > 2000 {
			panic(pathEnd{"limit", "call depth > 2000"})
		}
	}
	for i, p := range fn.Params {
		fr.env[i] = args[i]
		_ = p
	}
	np := len(fn.Params)
	for i := range fn.FreeVars {
		fr.env[np+i] = env[i]
	}
	fr.block = fn.Blocks[0]
	saved := in.curFrame
	in.curFrame = fr
	for fr.block != nil {
		in.runFrame(fr)
	}
	in.curFrame = saved
	return fr.result
}

// runFrame executes fr until return or a panic is handled, as in x/tools interp.
func (in *Interp) runFrame(fr *frame) {
	defer func() {
		if fr.block == nil {
			return // normal return
		}
		r := recover()
		if r == nil {
			return
		}
		tp, ok := r.(*targetPanic)
		if !ok {
			panic(r) // engine-level: propagate untouched
		}
		fr.panicking = true
		fr.panicVal = tp
		in.curFrame = fr
		fr.runDefers()
		// if we get here, a deferred call recovered
		fr.block = fr.fn.Recover
		if fr.block == nil {
			// no named results: return zero values
			fr.result = in.zeroResult(fr.fn)
		}
	}()
	for {
		for _, instr := range fr.block.Instrs {
			in.steps++
			if in.steps > in.cfg.MaxSteps && in.initDepth == 0 {
				panic(pathEnd{"limit", fmt.Sprintf("more than %d interpreter steps", in.cfg.MaxSteps)})
			}
			switch in.visitInstr(fr, instr) {
			case kReturn:
				return
			case kNext:
			case kJump:
				goto next
			}
		}
		panic("block did not end in a control instruction")
	next:
	}
}

func (in *Interp) zeroResult(fn *ssa.Function) Value {
	res := fn.Signature.Results()
	switch res.Len() {
	case 0:
		return nil
	case 1:
		return in.zero(res.At(0).Type())
	}
	return in.zero(res)
}

func (fr *frame) runDefers() {
	for fr.defers != nil {
		d := fr.defers
		fr.defers = d.tail
		fr.callDeferred(d)
	}
	if fr.panicking {
		panic(fr.panicVal) // re-raise
	}
}

func (fr *frame) callDeferred(d *deferred) {
	defer func() {
		if r := recover(); r != nil {
			if tp, ok := r.(*targetPanic); ok {
				// a panic in a deferred call replaces the current one
				fr.panicking = true
				fr.panicVal = tp
				fr.in.curFrame = fr
				return
			}
			panic(r)
		}
	}()
	fr.in.callValue(fr, d.fn, d.args)
	fr.in.curFrame = fr
}

// throw raises a run-time panic of the interpreted program.
func (in *Interp) throw(fr *frame, msg string) {
	panic(&targetPanic{v: in.mkRuntimeError(msg), msg: "runtime error: " + msg})
}

func (in *Interp) mkRuntimeError(msg string) Value {
	return in.mkError("runtime error: " + msg)
}

// mkError builds an *errors.errorString value boxed as error.
func (in *Interp) mkError(msg string) Value {
	pkg := in.prog.ImportedPackage("errors")
	if pkg == nil {
		return Iface{t: types.Typ[types.String], v: in.str(msg)}
	}
	t := pkg.Type("errorString")
	if t == nil {
		return Iface{t: types.Typ[types.String], v: in.str(msg)}
	}
	cell := []Value{Struct{in.str(msg)}}
	return Iface{t: types.NewPointer(t.Type()), v: Ptr{base: cell}}
}

const (
	kNext = iota
	kReturn
	kJump
)

func (in *Interp) visitInstr(fr *frame, instr ssa.Instruction) int {
	switch instr := instr.(type) {
	case *ssa.DebugRef:
	case *ssa.UnOp:
		fr.set(instr, in.unop(fr, instr, fr.get(instr.X)))
	case *ssa.BinOp:
		fr.set(instr, in.binop(fr, instr.Op, instr.X.Type(), instr.Y.Type(), fr.get(instr.X), fr.get(instr.Y)))
	case *ssa.Call:
		fn, args := in.prepareCall(fr, &instr.Call)
		in.curFrame = fr
		res := in.callValue(fr, fn, args)
		in.curFrame = fr
		if res == nil {
			res = Tuple(nil)
		}
		fr.set(instr, res)
	case *ssa.ChangeInterface:
		fr.set(instr, fr.get(instr.X))
	case *ssa.ChangeType:
		fr.set(instr, fr.get(instr.X))
	case *ssa.Convert:
		fr.set(instr, in.conv(fr, instr.Type(), instr.X.Type(), fr.get(instr.X)))
	case *ssa.MultiConvert:
		fr.set(instr, in.conv(fr, instr.Type(), instr.X.Type(), fr.get(instr.X)))
	case *ssa.SliceToArrayPointer:
		s := fr.get(instr.X).(Slice)
		n := int(instr.Type().(*types.Pointer).Elem().Underlying().(*types.Array).Len())
		if len(s) < n {
			in.throw(fr, "cannot convert slice to array pointer: length too short")
		}
		if s == nil {
			fr.set(instr, Ptr{})
		} else {
			fr.set(instr, Ptr{base: []Value{Array(s[:n:n])}})
		}
	case *ssa.MakeInterface:
		fr.set(instr, Iface{t: instr.X.Type(), v: fr.get(instr.X)})
	case *ssa.Extract:
		fr.set(instr, fr.get(instr.Tuple).(Tuple)[instr.Index])
	case *ssa.Slice:
		fr.set(instr, in.slice(fr, instr, fr.get(instr.X), instr.Low, instr.High, instr.Max))
	case *ssa.Return:
		switch len(instr.Results) {
		case 0:
		case 1:
			fr.result = fr.get(instr.Results[0])
		default:
			res := make(Tuple, len(instr.Results))
			for i, r := range instr.Results {
				res[i] = fr.get(r)
			}
			fr.result = res
		}
		fr.block = nil
		return kReturn
	case *ssa.RunDefers:
		fr.runDefers()
	case *ssa.Panic:
		v := fr.get(instr.X)
		panic(&targetPanic{v: v, msg: in.panicString(v)})
	case *ssa.Send:
		in.schedPoint(fr)
		in.chanSend(fr, fr.get(instr.Chan), fr.get(instr.X))
	case *ssa.Store:
		in.store(fr, fr.get(instr.Addr), fr.get(instr.Val))
	case *ssa.If:
		c := fr.get(instr.Cond).(*Term)
		in.curFrame = fr
		succ := 1
		if in.decide(c) {
			succ = 0
		}
		fr.prevBlock, fr.block = fr.block, fr.block.Succs[succ]
		return kJump
	case *ssa.Jump:
		fr.prevBlock, fr.block = fr.block, fr.block.Succs[0]
		return kJump
	case *ssa.Defer:
		fn, args := in.prepareCall(fr, &instr.Call)
		fr.defers = &deferred{fn: fn, args: args, instr: instr, tail: fr.defers}
	case *ssa.Go:
		fn, args := in.prepareCall(fr, &instr.Call)
		if in.sc != nil && in.sc.enabled {
			in.spawn(fn, args)
			in.schedPoint(fr)
			break
		}
		// fork-join only: run the goroutine body to completion here.
		in.goInlined++
		in.callValue(fr, fn, args)
		in.curFrame = fr
	case *ssa.MakeChan:
		n := in.concInt(fr.get(instr.Size), "chan size")
		fr.set(instr, &Chan{cap: int(n)})
	case *ssa.Alloc:
		t := instr.Type().(*types.Pointer).Elem()
		p := Ptr{base: []Value{in.zero(t)}}
		fr.set(instr, p)
	case *ssa.MakeSlice:
		lt := in.idx64(fr.get(instr.Len).(*Term), instr.Len.Type())
		ct := in.idx64(fr.get(instr.Cap).(*Term), instr.Cap.Type())
		const allocLimit = 1 << 24
		okLen := in.tt.And(in.tt.CmpBV(OUle, lt, ct), in.tt.CmpBV(OUle, ct, in.tt.BVConst(1<<47, 64)))
		in.curFrame = fr
		if !in.decide(okLen) {
			in.throw(fr, "makeslice: len out of range")
		}
		if !in.decide(in.tt.CmpBV(OUle, ct, in.tt.BVConst(allocLimit, 64))) {
			panic(pathEnd{"limit", fmt.Sprintf("make of more than %d elements", allocLimit)})
		}
		n := int(in.concretize(lt, "make len"))
		c := int(in.concretize(ct, "make cap"))
		et := instr.Type().Underlying().(*types.Slice).Elem()
		s := make(Slice, c)
		z := in.zero(et)
		switch z.(type) {
		case Struct, Array:
			for i := range s {
				if i == 0 {
					s[i] = z
				} else {
					s[i] = copyVal(z)
				}
			}
		default:
			for i := range s {
				s[i] = z
			}
		}
		fr.set(instr, s[:n])
	case *ssa.MakeMap:
		fr.set(instr, newMap())
	case *ssa.Range:
		fr.set(instr, in.rangeIter(fr, fr.get(instr.X), instr.X.Type()))
	case *ssa.Next:
		fr.set(instr, in.next(fr, instr, fr.get(instr.Iter)))
	case *ssa.FieldAddr:
		p := fr.get(instr.X).(Ptr)
		if p.isNil() {
			in.throw(fr, "invalid memory address or nil pointer dereference")
		}
		st := in.loadRaw(p).(Struct)
		fr.set(instr, Ptr{base: st, i: instr.Field})
	case *ssa.Field:
		fr.set(instr, fr.get(instr.X).(Struct)[instr.Field])
	case *ssa.IndexAddr:
		fr.set(instr, in.indexAddr(fr, fr.get(instr.X), fr.get(instr.Index).(*Term), instr.Index.Type()))
	case *ssa.Index:
		x := fr.get(instr.X)
		idx := fr.get(instr.Index).(*Term)
		switch x := x.(type) {
		case Array:
			fr.set(instr, in.readIndexed(fr, []Value(x), idx, instr.Index.Type()))
		case *Str:
			fr.set(instr, in.strIndex(fr, x, idx, instr.Index.Type()))
		default:
			panic(fmt.Sprintf("Index of %T", x))
		}
	case *ssa.Lookup:
		if _, isMap := instr.X.Type().Underlying().(*types.Map); isMap {
			in.schedPointMap(fr)
		}
		fr.set(instr, in.lookup(fr, instr, fr.get(instr.X), fr.get(instr.Index)))
	case *ssa.MapUpdate:
		m := fr.get(instr.Map).(*Map)
		if m == nil {
			in.throw(fr, "assignment to entry in nil map")
		}
		in.schedPointMap(fr)
		in.mapSet(fr, m, fr.get(instr.Key), fr.get(instr.Value))
	case *ssa.TypeAssert:
		fr.set(instr, in.typeAssert(fr, instr, fr.get(instr.X).(Iface)))
	case *ssa.MakeClosure:
		var bindings []Value
		for _, b := range instr.Bindings {
			bindings = append(bindings, fr.get(b))
		}
		fr.set(instr, &Closure{fn: instr.Fn.(*ssa.Function), env: bindings})
	case *ssa.Phi:
		for i, pred := range instr.Block().Preds {
			if fr.prevBlock == pred {
				fr.set(instr, fr.get(instr.Edges[i]))
				break
			}
		}
	case *ssa.Select:
		in.selectStmt(fr, instr)
	default:
		unsupported("instruction %T", instr)
	}
	return kNext
}

func (in *Interp) panicString(v Value) string {
	if i, ok := v.(Iface); ok {
		if i.t == nil {
			return "panic(nil)"
		}
		if s, ok := i.v.(*Str); ok {
			if c, ok := strConc(s); ok {
				return c
			}
		}
		// error values: try errorString
		if p, ok := i.v.(Ptr); ok && !p.isNil() {
			if st, ok := in.loadRaw(p).(Struct); ok && len(st) >= 1 {
				if s, ok := st[0].(*Str); ok {
					if c, ok := strConc(s); ok {
						return c
					}
				}
			}
		}
		return "panic(" + i.t.String() + ")"
	}
	return "panic"
}

func (in *Interp) concInt(v Value, what string) uint64 {
	t := v.(*Term)
	return in.concretize(t, what)
}

func (in *Interp) prepareCall(fr *frame, call *ssa.CallCommon) (fn Value, args []Value) {
	v := fr.get(call.Value)
	if call.Method == nil {
		fn = v
	} else {
		recv := v.(Iface)
		if recv.t == nil {
			in.throw(fr, "invalid memory address or nil pointer dereference (method call on nil interface)")
		}
		if f := in.lookupMethod(recv.t, call.Method); f == nil {
			unsupported("method %s not found on %s", call.Method, recv.t)
		} else {
			fn = in.funcValue(f)
		}
		args = append(args, recv.v)
	}
	for _, a := range call.Args {
		args = append(args, fr.get(a))
	}
	return
}

func (in *Interp) lookupMethod(t types.Type, meth *types.Func) *ssa.Function {
	return in.prog.LookupMethod(t, meth.Pkg(), meth.Name())
}

// ---- memory ----

func (in *Interp) loadRaw(p Ptr) Value {
	if p.sym != nil {
		return in.symRead(p.base, p.sym)
	}
	return p.base[p.i]
}

func (in *Interp) load(fr *frame, p Ptr) Value {
	if p.isNil() {
		in.throw(fr, "invalid memory address or nil pointer dereference")
	}
	if p.sym == nil && in.sc != nil && in.sc.race != nil {
		in.raceAccess(fr, &p.base[p.i], false)
	}
	return copyVal(in.loadRaw(p))
}

func (in *Interp) store(fr *frame, addr Value, v Value) {
	p := addr.(Ptr)
	if p.isNil() {
		in.throw(fr, "invalid memory address or nil pointer dereference")
	}
	if p.sym == nil && in.sc != nil && in.sc.race != nil {
		in.raceAccess(fr, &p.base[p.i], true)
	}
	if p.sym != nil {
		nv, ok := v.(*Term)
		if !ok {
			unsupported("store of %T through symbolic index", v)
		}
		for j := range p.base {
			old, ok := p.base[j].(*Term)
			if !ok {
				unsupported("store through symbolic index into %T", p.base[j])
			}
			p.base[j] = in.tt.Ite(in.tt.Eq(p.sym, in.tt.BVConst(uint64(j), p.sym.sort.W)), nv, old)
		}
		return
	}
	// struct/array values are stored by copying into the existing storage so
	// that pointers to fields/elements stay valid
	switch nv := v.(type) {
	case Struct:
		if old, ok := p.base[p.i].(Struct); ok && len(old) == len(nv) {
			in.copyInto([]Value(old), []Value(nv))
			return
		}
	case Array:
		if old, ok := p.base[p.i].(Array); ok && len(old) == len(nv) {
			in.copyInto([]Value(old), []Value(nv))
			return
		}
	}
	p.base[p.i] = copyVal(v)
}

func (in *Interp) copyInto(dst, src []Value) {
	for i := range src {
		switch sv := src[i].(type) {
		case Struct:
			if d, ok := dst[i].(Struct); ok && len(d) == len(sv) {
				in.copyInto([]Value(d), []Value(sv))
				continue
			}
			dst[i] = copyVal(sv)
		case Array:
			if d, ok := dst[i].(Array); ok && len(d) == len(sv) {
				in.copyInto([]Value(d), []Value(sv))
				continue
			}
			dst[i] = copyVal(sv)
		default:
			dst[i] = sv
		}
	}
}

// symRead builds an ite chain selecting base[idx].
func (in *Interp) symRead(base []Value, idx *Term) Value {
	if r, ok := in.symReadPeel(base, idx); ok { // equivalent smaller term, see intrinsics_c04.go
		return r
	}
	n := len(base)
	last, ok := base[n-1].(*Term)
	if !ok {
		unsupported("symbolic index into non-scalar elements (%T)", base[n-1])
	}
	res := last
	for j := n - 2; j >= 0; j-- {
		e, ok := base[j].(*Term)
		if !ok {
			unsupported("symbolic index into non-scalar elements (%T)", base[j])
		}
		res = in.tt.Ite(in.tt.Eq(idx, in.tt.BVConst(uint64(j), idx.sort.W)), e, res)
	}
	return res
}

// idx64 normalises an index term to 64 bits per its static type.
func (in *Interp) idx64(idx *Term, t types.Type) *Term {
	if idx.sort.W == 64 {
		return idx
	}
	_, signed, _ := intInfo(t)
	if signed {
		return in.tt.SExt(idx, 64)
	}
	return in.tt.ZExt(idx, 64)
}

// boundsCheck decides 0 <= idx < n (idx 64-bit), panicking on the other side.
// For <= n pass inclusive.
func (in *Interp) boundsCheck(fr *frame, idx *Term, n int, inclusive bool, what string) {
	var c *Term
	lim := in.tt.BVConst(uint64(n), 64)
	if inclusive {
		c = in.tt.CmpBV(OUle, idx, lim)
	} else {
		c = in.tt.CmpBV(OUlt, idx, lim)
	}
	in.curFrame = fr
	if !in.decide(c) {
		in.throw(fr, fmt.Sprintf("%s out of range [%s] with length %d", what, describe(idx), n))
	}
}

func (in *Interp) indexAddr(fr *frame, x Value, idx *Term, it types.Type) Value {
	var base []Value
	switch x := x.(type) {
	case Ptr: // *array
		if x.isNil() {
			in.throw(fr, "invalid memory address or nil pointer dereference")
		}
		base = []Value(in.loadRaw(x).(Array))
	case Slice:
		base = []Value(x)
	default:
		panic(fmt.Sprintf("indexAddr of %T", x))
	}
	idx = in.idx64(idx, it)
	in.boundsCheck(fr, idx, len(base), false, "index")
	if idx.IsConst() {
		return Ptr{base: base, i: int(idx.cval)}
	}
	if len(base) == 1 {
		return Ptr{base: base, i: 0}
	}
	// scalars: keep a symbolic-index pointer; aggregates: case split
	if _, ok := base[0].(*Term); ok && len(base) <= 1024 {
		return Ptr{base: base, sym: idx}
	}
	v := in.concretize(idx, "index of aggregate element")
	return Ptr{base: base, i: int(v)}
}

func (in *Interp) readIndexed(fr *frame, base []Value, idx *Term, it types.Type) Value {
	idx = in.idx64(idx, it)
	in.boundsCheck(fr, idx, len(base), false, "index")
	if idx.IsConst() {
		return copyVal(base[idx.cval])
	}
	if _, ok := base[0].(*Term); ok {
		return in.symRead(base, idx)
	}
	v := in.concretize(idx, "index of aggregate element")
	return copyVal(base[v])
}

func (in *Interp) slice(fr *frame, instr *ssa.Slice, x Value, lo, hi, max ssa.Value) Value {
	tt := in.tt
	// bounds as 64-bit terms (nil = default)
	term := func(v ssa.Value) *Term {
		if v == nil {
			return nil
		}
		return in.idx64(fr.get(v).(*Term), v.Type())
	}
	lt, ht, mt := term(lo), term(hi), term(max)
	// check decides 0 <= l <= h <= m <= c symbolically (one branch), then
	// concretises the in-range values only.
	check := func(length, c int) (int, int, int) {
		l, h, m := lt, ht, mt
		if l == nil {
			l = tt.BVConst(0, 64)
		}
		if h == nil {
			h = tt.BVConst(uint64(length), 64)
		}
		if m == nil {
			m = tt.BVConst(uint64(c), 64)
		}
		ok := tt.And(tt.And(tt.CmpBV(OUle, l, h), tt.CmpBV(OUle, h, m)), tt.CmpBV(OUle, m, tt.BVConst(uint64(c), 64)))
		in.curFrame = fr
		if !in.decide(ok) {
			in.throw(fr, fmt.Sprintf("slice bounds out of range [%s:%s:%s] with capacity %d", describe(l), describe(h), describe(m), c))
		}
		return int(in.concretize(l, "slice low bound")), int(in.concretize(h, "slice high bound")), int(in.concretize(m, "slice max bound"))
	}
	switch x := x.(type) {
	case *Str:
		n := x.Len()
		l, h, _ := check(n, n)
		return in.strSlice(x, l, h)
	case Slice:
		l, h, m := check(len(x), cap(x))
		if x == nil {
			return Slice(nil)
		}
		return x[l:h:m]
	case Ptr: // *array
		if x.isNil() {
			in.throw(fr, "invalid memory address or nil pointer dereference")
		}
		a := []Value(in.loadRaw(x).(Array))
		l, h, m := check(len(a), len(a))
		if a == nil {
			a = []Value{}
		}
		return Slice(a[l:h:m])
	}
	panic(fmt.Sprintf("slice of %T", x))
}

// ---- type assertions ----

func (in *Interp) typeAssert(fr *frame, instr *ssa.TypeAssert, itf Iface) Value {
	var v Value
	ok := false
	if idst, isI := instr.AssertedType.Underlying().(*types.Interface); isI {
		if itf.t != nil && in.implements(itf.t, idst) {
			v = itf
			ok = true
		}
	} else if itf.t != nil && types.Identical(itf.t, instr.AssertedType) {
		v = copyVal(itf.v)
		ok = true
	}
	if !ok {
		if !instr.CommaOk {
			dyn := "nil"
			if itf.t != nil {
				dyn = itf.t.String()
			}
			in.throw(fr, fmt.Sprintf("interface conversion: interface is %s, not %s", dyn, instr.AssertedType))
		}
		v = in.zero(instr.AssertedType)
	}
	if instr.CommaOk {
		return Tuple{v, in.tt.Bool(ok)}
	}
	return v
}

func (in *Interp) implements(t types.Type, i *types.Interface) bool {
	if i.NumMethods() == 0 {
		return true
	}
	return types.Implements(t, i)
}

// ---- iteration ----

func (in *Interp) rangeIter(fr *frame, x Value, t types.Type) Value {
	switch x := x.(type) {
	case *Map:
		it := &MapIter{m: x}
		if x != nil {
			for i := range x.keys {
				if x.live[i] {
					it.order = append(it.order, i)
				}
			}
			if in.mapOrderArbitrary && len(it.order) > 1 && len(it.order) <= 4 {
				// arbitrary iteration order: fork over all permutations
				perms := permutations(len(it.order))
				k := in.choose(len(perms))
				o := make([]int, len(it.order))
				for i, pi := range perms[k] {
					o[i] = it.order[pi]
				}
				it.order = o
			}
		}
		return it
	case *Str:
		return &StrIter{s: x}
	}
	panic(fmt.Sprintf("range over %T", x))
}

func permutations(n int) [][]int {
	var res [][]int
	var rec func(cur []int, used []bool)
	rec = func(cur []int, used []bool) {
		if len(cur) == n {
			res = append(res, append([]int(nil), cur...))
			return
		}
		for i := 0; i < n; i++ {
			if !used[i] {
				used[i] = true
				rec(append(cur, i), used)
				used[i] = false
			}
		}
	}
	rec(nil, make([]bool, n))
	return res
}

func (in *Interp) next(fr *frame, instr *ssa.Next, it Value) Value {
	switch it := it.(type) {
	case *MapIter:
		tu := instr.Type().(*types.Tuple)
		for it.pos < len(it.order) {
			slot := it.order[it.pos]
			it.pos++
			if it.m.live[slot] {
				return Tuple{in.tt.Bool(true), copyVal(it.m.keys[slot]), copyVal(it.m.vals[slot])}
			}
		}
		return Tuple{in.tt.Bool(false), in.zeroOrBad(tu.At(1).Type()), in.zeroOrBad(tu.At(2).Type())}
	case *StrIter:
		it.s.fix()
		n := it.s.Len()
		if it.pos >= n {
			return Tuple{in.tt.Bool(false), in.tt.BVConst(0, 64), in.tt.BVConst(0, 32)}
		}
		if it.s.c == nil {
			// concrete
			for i, r := range it.s.s[it.pos:] {
				_ = i
				start := it.pos
				size := len(string(r))
				if r == 0xFFFD {
					// invalid encoding consumes one byte, valid U+FFFD three
					if !strings.HasPrefix(it.s.s[it.pos:], "�") {
						size = 1
					}
				}
				it.pos += size
				return Tuple{in.tt.Bool(true), in.tt.BVConst(uint64(start), 64), in.tt.BVConst(uint64(r), 32)}
			}
		}
		// symbolic: run the real utf8.DecodeRuneInString on the suffix
		dec := in.findFunc("unicode/utf8", "DecodeRuneInString")
		if dec == nil {
			unsupported("range over symbolic string needs unicode/utf8")
		}
		res := in.callSSA(fr, dec, []Value{in.strSlice(it.s, it.pos, n)}, nil).(Tuple)
		size := in.concInt(res[1], "rune size")
		start := it.pos
		it.pos += int(size)
		return Tuple{in.tt.Bool(true), in.tt.BVConst(uint64(start), 64), res[0]}
	}
	panic(fmt.Sprintf("next on %T", it))
}

func (in *Interp) zeroOrBad(t types.Type) Value {
	if t == nil || t == types.Typ[types.Invalid] {
		return Bad{}
	}
	return in.zero(t)
}

func (in *Interp) findFunc(pkgPath, name string) *ssa.Function {
	pkg := in.prog.ImportedPackage(pkgPath)
	if pkg == nil {
		return nil
	}
	return pkg.Func(name)
}

// ---- channels (single-threaded, buffered only) ----

func (in *Interp) chanSend(fr *frame, c Value, v Value) {
	ch := c.(*Chan)
	if in.sc != nil && in.sc.enabled {
		in.curFrame = fr
		in.gSend(fr, ch, v)
		return
	}
	if ch == nil {
		unsupported("send on nil channel blocks forever")
	}
	if ch.closed {
		in.throw(fr, "send on closed channel")
	}
	if len(ch.buf) >= ch.cap {
		unsupported("send would block (goroutines/channels are outside the model)")
	}
	ch.buf = append(ch.buf, v)
}

func (in *Interp) chanRecv(fr *frame, c Value, t types.Type, commaOk bool) Value {
	ch := c.(*Chan)
	if in.sc != nil && in.sc.enabled {
		in.curFrame = fr
		in.schedPoint(fr)
		v, ok := in.gRecv(fr, ch, t.Underlying().(*types.Chan).Elem())
		if commaOk {
			return Tuple{v, in.tt.Bool(ok)}
		}
		return v
	}
	if ch == nil {
		unsupported("receive on nil channel blocks forever")
	}
	var v Value
	ok := true
	if len(ch.buf) > 0 {
		v = ch.buf[0]
		ch.buf = ch.buf[1:]
	} else if ch.closed {
		v = in.zero(t.Underlying().(*types.Chan).Elem())
		ok = false
	} else {
		unsupported("receive would block (goroutines/channels are outside the model)")
	}
	if commaOk {
		return Tuple{v, in.tt.Bool(ok)}
	}
	return v
}

func (in *Interp) selectStmt(fr *frame, instr *ssa.Select) {
	if in.sc != nil && in.sc.enabled {
		in.curFrame = fr
		in.schedPoint(fr)
		in.gSelect(fr, instr)
		return
	}
	// pick the first ready case; otherwise default; otherwise unsupported
	for i, st := range instr.States {
		ch := fr.get(st.Chan).(*Chan)
		if ch == nil {
			continue
		}
		if st.Dir == types.RecvOnly {
			if len(ch.buf) > 0 || ch.closed {
				res := Tuple{in.tt.BVConst(uint64(i), 64), in.tt.Bool(len(ch.buf) > 0 || !ch.closed)}
				var got Value
				recvOK := true
				if len(ch.buf) > 0 {
					got = ch.buf[0]
					ch.buf = ch.buf[1:]
				} else {
					got = in.zero(st.Chan.Type().Underlying().(*types.Chan).Elem())
					recvOK = false
				}
				res[1] = in.tt.Bool(recvOK)
				for j, st2 := range instr.States {
					if st2.Dir == types.RecvOnly {
						if j == i {
							res = append(res, got)
						} else {
							res = append(res, in.zero(st2.Chan.Type().Underlying().(*types.Chan).Elem()))
						}
					}
				}
				fr.set(instr, res)
				return
			}
		} else {
			if !ch.closed && len(ch.buf) < ch.cap {
				ch.buf = append(ch.buf, fr.get(st.Send))
				res := Tuple{in.tt.BVConst(uint64(i), 64), in.tt.Bool(false)}
				for _, st2 := range instr.States {
					if st2.Dir == types.RecvOnly {
						res = append(res, in.zero(st2.Chan.Type().Underlying().(*types.Chan).Elem()))
					}
				}
				fr.set(instr, res)
				return
			}
		}
	}
	if !instr.Blocking {
		res := Tuple{in.tt.BVConst(^uint64(0), 64), in.tt.Bool(false)}
		for _, st2 := range instr.States {
			if st2.Dir == types.RecvOnly {
				res = append(res, in.zero(st2.Chan.Type().Underlying().(*types.Chan).Elem()))
			}
		}
		fr.set(instr, res)
		return
	}
	unsupported("select would block (goroutines/channels are outside the model)")
}

// stack renders the interpreted call stack.
func (fr *frame) stack() string {
	var sb strings.Builder
	for f := fr; f != nil; f = f.caller {
		sb.WriteString(f.fn.String())
		sb.WriteString("\n")
	}
	return sb.String()
}

func sortedKeys(m map[string]bool) []string {
	var ks []string
	for k := range m {
		ks = append(ks, k)
	}
	sort.Strings(ks)
	return ks
}

var _ = token.ADD
