package main

// Cooperative goroutines (opt-in per harness with verif.Goroutines(true)).
//
// Default mode (unchanged): `go f()` runs f to completion at the spawn point
// and any channel operation that would block is INCONCLUSIVE.
//
// Goroutine mode: every interpreted goroutine is a real Go goroutine, but
// only the holder of the baton executes.  The schedule is ONE deterministic
// schedule: a goroutine runs until it blocks (channel send/receive, select,
// WaitGroup.Wait, Mutex.Lock on a held mutex, Cond.Wait) or exits, then the
// first runnable goroutine in FIFO order continues.  `select` takes the first
// ready case in source order.  Nothing is claimed about other interleavings;
// what this adds is that data-flow through goroutine pipelines (pullers,
// workers, errgroup legs) is executed instead of being unsupported.  An
// uncaught panic in a goroutine is what it is in Go: a crash of the process
// (reported as the implicit `panic` assertion).  If every goroutine is
// blocked the path is INCONCLUSIVE (deadlock under this schedule).

import (
	"fmt"
	"os"
	"runtime/debug"
	"strings"
	"go/types"

	"golang.org/x/tools/go/ssa"
)

type gor struct {
	id      int
	resume  chan struct{}
	done    bool
	parked  bool
	frame   *frame
	waitOn  []interface{} // objects this goroutine is blocked on
	selSend []interface{} // channels it waits to SEND on inside a select (subset of waitOn)
	isMain  bool
	vc      vclock // happens-before clock (race detection)
	held    int // locks held (schedule exploration: no map-access preemption points inside a critical section)
}

type sched struct {
	enabled  bool
	cur      *gor
	main     *gor
	all      []*gor
	runq     []*gor
	aborting bool
	abort    interface{} // engine-level panic to deliver to main
	ack      chan struct{}
	wg       map[string]int64
	mu       map[string]bool
	rw       map[string]int // >0 readers, -1 writer
	switches int
	race     *raceState
	bound    int // >0: schedule exploration with at most this many preemptions (verif.Schedules)
	preempts int
}

type abortGoroutine struct{}

// goroutinePanic is an uncaught panic of a non-main goroutine.
type goroutinePanic struct {
	tp *targetPanic
}

func (in *Interp) schedReset() {
	in.sc = &sched{}
}

func (in *Interp) schedEnable() {
	sc := in.sc
	if sc.enabled {
		return
	}
	sc.enabled = true
	sc.main = &gor{id: 0, resume: make(chan struct{}), isMain: true}
	sc.cur = sc.main
	sc.all = []*gor{sc.main}
	sc.ack = make(chan struct{})
	sc.wg = map[string]int64{}
	sc.mu = map[string]bool{}
	sc.rw = map[string]int{}
}

// spawn starts fn(args) as a new runnable goroutine; the caller continues.
func (in *Interp) spawn(fnv Value, args []Value) {
	sc := in.sc
	g := &gor{id: len(sc.all), resume: make(chan struct{})}
	if sc.race != nil && sc.race.on {
		// goroutine start: the child sees the parent's past
		p := sc.cur
		if len(p.vc) <= p.id {
			p.tick()
		}
		g.vc = vcCopy(p.vc)
		g.tick()
		p.tick()
	}
	sc.all = append(sc.all, g)
	sc.runq = append(sc.runq, g)
	g.parked = true
	go func() {
		<-g.resume
		defer func() {
			r := recover()
			g.done = true
			if _, isAbort := r.(abortGoroutine); isAbort || sc.aborting {
				sc.ack <- struct{}{}
				return
			}
			if r != nil {
				switch r := r.(type) {
				case *targetPanic:
					sc.abort = goroutinePanic{r}
				default:
					if _, isEnd := r.(pathEnd); !isEnd && os.Getenv("GOSYM_CRASH") != "" {
						fmt.Fprintf(os.Stderr, "ENGINE-CRASH in goroutine %d: %v\n%s\n", g.id, r, debug.Stack())
					}
					sc.abort = r
				}
				// deliver to main
				in.handTo(sc.main)
				return
			}
			in.exitGoroutine(g)
		}()
		if sc.aborting {
			panic(abortGoroutine{})
		}
		in.curFrame = nil
		in.callValue(nil, fnv, args)
	}()
}

// handTo passes the baton to g without parking the caller (used on exit).
func (in *Interp) handTo(g *gor) {
	sc := in.sc
	// remove g from the run queue if present
	for i, x := range sc.runq {
		if x == g {
			sc.runq = append(sc.runq[:i], sc.runq[i+1:]...)
			break
		}
	}
	sc.cur = g
	g.parked = false
	g.waitOn = nil
	g.resume <- struct{}{}
}

func (in *Interp) exitGoroutine(g *gor) {
	sc := in.sc
	if len(sc.runq) > 0 {
		func() {
			// (a limit hit while choosing ends the path: deliver it to main)
			defer func() {
				if r := recover(); r != nil {
					sc.abort = r
				}
			}()
			in.pickNext()
		}()
		if sc.abort != nil {
			in.handTo(sc.main)
			return
		}
		next := sc.runq[0]
		sc.runq = sc.runq[1:]
		sc.cur = next
		next.parked = false
		next.resume <- struct{}{}
		return
	}
	// nothing runnable: main must be blocked => deadlock under this schedule
	sc.abort = pathEnd{"unsupported", "deadlock: all goroutines are blocked under the explored schedule (concurrency beyond one deterministic schedule is outside the model)"}
	in.handTo(sc.main)
}

// park blocks the current goroutine on the given objects until woken.
func (in *Interp) park(on ...interface{}) { in.parkOpt(true, on...) }

func (in *Interp) parkOpt(pick bool, on ...interface{}) {
	sc := in.sc
	g := sc.cur
	g.waitOn = on
	g.frame = in.curFrame
	sc.switches++
	if sc.switches > 200000 {
		panic(pathEnd{"limit", "more than 200000 goroutine switches"})
	}
	if len(sc.runq) == 0 {
		g.waitOn = nil
		panic(pathEnd{"unsupported", "deadlock: all goroutines are blocked under the explored schedule (concurrency beyond one deterministic schedule is outside the model)"})
	}
	if pick {
		in.pickNext()
	}
	next := sc.runq[0]
	sc.runq = sc.runq[1:]
	g.parked = true
	sc.cur = next
	next.parked = false
	next.resume <- struct{}{}
	<-g.resume
	// resumed
	in.curFrame = g.frame
	if sc.aborting && !g.isMain {
		panic(abortGoroutine{})
	}
	if g.isMain && sc.abort != nil {
		r := sc.abort
		sc.abort = nil
		panic(r)
	}
}

// yield lets other runnable goroutines run (used by Gosched-like points).
func (in *Interp) yield() {
	sc := in.sc
	if !sc.enabled || len(sc.runq) == 0 {
		return
	}
	g := sc.cur
	sc.runq = append(sc.runq, g)
	in.park()
}

// pickNext (schedule exploration): which runnable goroutine continues is a
// choice; the chosen one is moved to the front of the run queue.
func (in *Interp) pickNext() {
	sc := in.sc
	if sc.bound == 0 || len(sc.runq) < 2 || sc.aborting || sc.preempts >= sc.bound {
		return
	}
	c := in.choose(len(sc.runq))
	if c > 0 {
		// a pick other than the FIFO one counts against the bound as well
		sc.preempts++
		g := sc.runq[c]
		copy(sc.runq[1:c+1], sc.runq[0:c])
		sc.runq[0] = g
	}
}

// schedPoint is a preemption point (before a lock/unlock, an atomic, a map
// access, a channel operation, after a spawn): under schedule exploration the
// current goroutine may be preempted here in favour of any runnable one, as
// long as the preemption bound is not used up.
func (in *Interp) schedPointMap(fr *frame) {
	if sc := in.sc; sc != nil && sc.enabled && sc.bound > 0 && sc.cur.held == 0 {
		in.schedPoint(fr)
	}
}

func (in *Interp) schedPoint(fr *frame) {
	sc := in.sc
	if sc == nil || !sc.enabled || sc.bound == 0 || sc.preempts >= sc.bound || len(sc.runq) == 0 || sc.aborting || in.initDepth > 0 {
		// (no preemption inside a lazily run package init: it happens once per
		// worker, not once per path)
		return
	}
	c := in.choose(1 + len(sc.runq))
	if c == 0 {
		return
	}
	sc.preempts++
	c--
	if c > 0 {
		g := sc.runq[c]
		copy(sc.runq[1:c+1], sc.runq[0:c])
		sc.runq[0] = g
	}
	if fr != nil {
		in.curFrame = fr
	}
	// the preempted goroutine goes to the back; the chosen one is at the front
	g := sc.cur
	sc.runq = append(sc.runq, g)
	in.parkOpt(false)
}

// wake makes every goroutine blocked on obj runnable.
func (in *Interp) wake(obj interface{}) {
	sc := in.sc
	if !sc.enabled {
		return
	}
	for _, g := range sc.all {
		if g.done || !g.parked || g.waitOn == nil {
			continue
		}
		for _, w := range g.waitOn {
			if w == obj {
				g.waitOn = nil
				sc.runq = append(sc.runq, g)
				break
			}
		}
	}
}

// endGoroutines terminates every goroutine still parked (called at path end
// by the main goroutine, which holds the baton).
func (in *Interp) endGoroutines() {
	sc := in.sc
	if sc == nil || !sc.enabled {
		return
	}
	sc.aborting = true
	for _, g := range sc.all {
		if g.isMain || g.done {
			continue
		}
		g.resume <- struct{}{}
		<-sc.ack
	}
	sc.enabled = false
}

// ---- channel operations in goroutine mode ----

func (in *Interp) gSend(fr *frame, ch *Chan, v Value) {
	in.raceRelease(ch)
	if ch == nil {
		in.park(ch) // blocks forever
	}
	for {
		if ch.closed {
			in.throw(fr, "send on closed channel")
		}
		if ch.cap > 0 {
			if len(ch.buf) < ch.cap {
				ch.buf = append(ch.buf, v)
				in.wake(ch)
				return
			}
		} else if len(ch.buf) == 0 {
			// rendezvous: hand the value over and wait until it is taken
			ch.buf = append(ch.buf, v)
			ch.seq++
			my := ch.seq
			in.wake(ch)
			for ch.taken < my {
				if ch.closed && len(ch.buf) > 0 {
					// closed while the value was pending: Go would have panicked in close's racer; treat as taken
					break
				}
				in.park(ch)
			}
			return
		}
		in.park(ch)
	}
}

func (in *Interp) gRecv(fr *frame, ch *Chan, elem types.Type) (Value, bool) {
	if ch == nil {
		in.park(ch)
	}
	for {
		if len(ch.buf) > 0 {
			v := ch.buf[0]
			ch.buf = ch.buf[1:]
			if ch.cap == 0 {
				ch.taken++
			}
			in.wake(ch)
			in.raceAcquire(ch)
			return v, true
		}
		if ch.closed {
			in.raceAcquire(ch)
			return in.zero(elem), false
		}
		// let senders that wait in a select for a receiver re-evaluate
		in.wakeSelectSenders(ch)
		in.park(ch)
	}
}

func (in *Interp) gSelect(fr *frame, instr *ssa.Select) {
	type st struct {
		ch   *Chan
		send bool
		val  Value
	}
	states := make([]st, len(instr.States))
	for i, s := range instr.States {
		states[i] = st{ch: fr.get(s.Chan).(*Chan), send: s.Dir == types.SendOnly}
		if states[i].send {
			states[i].val = fr.get(s.Send)
		}
	}
	result := func(idx int, recvOK bool, got Value) {
		res := Tuple{in.tt.BVConst(uint64(int64(idx)), 64), in.tt.Bool(recvOK)}
		for j, s := range instr.States {
			if s.Dir == types.RecvOnly {
				if j == idx && got != nil {
					res = append(res, got)
				} else {
					res = append(res, in.zero(s.Chan.Type().Underlying().(*types.Chan).Elem()))
				}
			}
		}
		fr.set(instr, res)
	}
	for {
		for i, s := range states {
			if s.ch == nil {
				continue
			}
			if s.send {
				if s.ch.closed {
					in.throw(fr, "send on closed channel")
				}
				if (s.ch.cap > 0 && len(s.ch.buf) < s.ch.cap) || (s.ch.cap == 0 && len(s.ch.buf) == 0 && in.hasReceiver(s.ch)) {
					in.raceRelease(s.ch)
					s.ch.buf = append(s.ch.buf, s.val)
					if s.ch.cap == 0 {
						s.ch.seq++
					}
					in.wake(s.ch)
					result(i, false, nil)
					return
				}
			} else {
				if len(s.ch.buf) > 0 {
					v := s.ch.buf[0]
					s.ch.buf = s.ch.buf[1:]
					if s.ch.cap == 0 {
						s.ch.taken++
					}
					in.wake(s.ch)
					in.raceAcquire(s.ch)
					result(i, true, v)
					return
				}
				if s.ch.closed {
					in.raceAcquire(s.ch)
					result(i, false, nil)
					return
				}
			}
		}
		if !instr.Blocking {
			result(-1, false, nil)
			return
		}
		var on, sends []interface{}
		for _, s := range states {
			if s.ch != nil {
				on = append(on, s.ch)
				if s.send {
					sends = append(sends, s.ch)
				} else {
					// a sender that parked in a select on this channel before
					// any receiver existed must re-evaluate now that one does
					in.wakeSelectSenders(s.ch)
				}
			}
		}
		in.sc.cur.selSend = sends
		in.park(on...)
		in.sc.cur.selSend = nil
	}
}

// wakeSelectSenders makes runnable the goroutines parked in a select with a
// send case on ch (an unbuffered send in a select only completes when a
// receiver is parked on the channel: see hasReceiver).
func (in *Interp) wakeSelectSenders(ch interface{}) {
	sc := in.sc
	for _, g := range sc.all {
		if g.done || !g.parked || g.waitOn == nil || g == sc.cur {
			continue
		}
		for _, w := range g.selSend {
			if w == ch {
				g.waitOn = nil
				sc.runq = append(sc.runq, g)
				break
			}
		}
	}
}

// hasReceiver: is some other goroutine parked on ch (so that an unbuffered
// send in a select can complete)?
func (in *Interp) hasReceiver(ch *Chan) bool {
	for _, g := range in.sc.all {
		if g.done || !g.parked || g == in.sc.cur {
			continue
		}
		for _, w := range g.waitOn {
			if w == ch && !isSelSender(g, ch) {
				return true
			}
		}
	}
	return false
}

// isSelSender: g is parked in a select whose case on ch is a SEND (it waits
// for a receiver itself and must not be taken for one).
func isSelSender(g *gor, ch *Chan) bool {
	for _, w := range g.selSend {
		if w == interface{}(ch) {
			return true
		}
	}
	return false
}

func (in *Interp) gClose(fr *frame, ch *Chan) {
	if ch == nil {
		in.throw(fr, "close of nil channel")
	}
	if ch.closed {
		in.throw(fr, "close of closed channel")
	}
	in.raceRelease(ch)
	ch.closed = true
	in.wake(ch)
}

// ---- sync primitives in goroutine mode ----

func ptrKey(v Value) string {
	k, _ := concKey(v)
	return k
}

func init() {
	type lockFn func(in *Interp, fr *frame, key string)
	wrap := func(name string, f lockFn, prev intrinsic) {
		intrinsics[name] = func(in *Interp, fr *frame, fn *ssa.Function, a []Value) Value {
			if in.sc != nil && in.sc.enabled {
				isLock := strings.HasSuffix(name, "Lock")
				release := strings.HasSuffix(name, "Unlock")
				acquire := isLock && !release
				if !release {
					in.schedPoint(fr)
				}
				key := ptrKey(a[0])
				if release || strings.HasSuffix(name, ".Done") {
					in.raceRelease("sync:" + key)
				}
				f(in, fr, key)
				if acquire || strings.HasSuffix(name, ".Wait") {
					in.raceAcquire("sync:" + key)
				}
				if acquire {
					in.sc.cur.held++
				}
				if release {
					in.sc.cur.held--
					in.schedPoint(fr)
				}
				return nil
			}
			return prev(in, fr, fn, a)
		}
	}
	wrap("(*sync.Mutex).Lock", func(in *Interp, fr *frame, k string) {
		for in.sc.mu[k] {
			in.park("mu:" + k)
		}
		in.sc.mu[k] = true
	}, nop)
	wrap("(*sync.Mutex).Unlock", func(in *Interp, fr *frame, k string) {
		in.sc.mu[k] = false
		in.wake("mu:" + k)
	}, nop)
	wrap("(*sync.RWMutex).Lock", func(in *Interp, fr *frame, k string) {
		for in.sc.rw[k] != 0 {
			in.park("rw:" + k)
		}
		in.sc.rw[k] = -1
	}, nop)
	wrap("(*sync.RWMutex).Unlock", func(in *Interp, fr *frame, k string) {
		in.sc.rw[k] = 0
		in.wake("rw:" + k)
	}, nop)
	wrap("(*sync.RWMutex).RLock", func(in *Interp, fr *frame, k string) {
		for in.sc.rw[k] < 0 {
			in.park("rw:" + k)
		}
		in.sc.rw[k]++
	}, nop)
	wrap("(*sync.RWMutex).RUnlock", func(in *Interp, fr *frame, k string) {
		in.sc.rw[k]--
		in.wake("rw:" + k)
	}, nop)
	wrap("(*sync.WaitGroup).Done", func(in *Interp, fr *frame, k string) {
		in.sc.wg[k]--
		if in.sc.wg[k] < 0 {
			in.throw(fr, "sync: negative WaitGroup counter")
		}
		if in.sc.wg[k] == 0 {
			in.wake("wg:" + k)
		}
	}, nop)
	wrap("(*sync.WaitGroup).Wait", func(in *Interp, fr *frame, k string) {
		for in.sc.wg[k] > 0 {
			in.park("wg:" + k)
		}
	}, nop)
	intrinsics["(*sync.WaitGroup).Add"] = func(in *Interp, fr *frame, fn *ssa.Function, a []Value) Value {
		if in.sc != nil && in.sc.enabled {
			k := ptrKey(a[0])
			in.sc.wg[k] += sext(in.concInt(a[1], "WaitGroup.Add"), 64)
			if in.sc.wg[k] < 0 {
				in.throw(fr, "sync: negative WaitGroup counter")
			}
			if in.sc.wg[k] == 0 {
				in.wake("wg:" + k)
			}
		}
		return nil
	}
	prevCondWait := intrinsics["(*sync.Cond).Wait"]
	intrinsics["(*sync.Cond).Wait"] = func(in *Interp, fr *frame, fn *ssa.Function, a []Value) Value {
		if in.sc != nil && in.sc.enabled {
			// c.L.Unlock(); wait; c.L.Lock()
			c := in.loadRaw(a[0].(Ptr)).(Struct)
			var l Iface
			for _, f := range c {
				if i, ok := f.(Iface); ok && i.t != nil {
					l = i
				}
			}
			if l.t == nil {
				unsupported("sync.Cond without a Locker")
			}
			in.callMethod(fr, l, "Unlock")
			in.park("cond:" + ptrKey(a[0]))
			in.callMethod(fr, l, "Lock")
			return nil
		}
		return prevCondWait(in, fr, fn, a)
	}
	for _, n := range []string{"Signal", "Broadcast"} {
		intrinsics["(*sync.Cond)."+n] = func(in *Interp, fr *frame, fn *ssa.Function, a []Value) Value {
			if in.sc != nil && in.sc.enabled {
				in.wake("cond:" + ptrKey(a[0]))
			}
			return nil
		}
	}
	intrinsics["runtime.Gosched"] = func(in *Interp, fr *frame, fn *ssa.Function, a []Value) Value {
		if in.sc != nil && in.sc.enabled {
			in.yield()
		}
		return nil
	}
	intrinsics[verifPkg+".Schedules"] = func(in *Interp, fr *frame, fn *ssa.Function, a []Value) Value {
		in.schedEnable()
		in.sc.bound = int(in.concInt(a[0], "Schedules bound"))
		return nil
	}
	intrinsics[verifPkg+".Goroutines"] = func(in *Interp, fr *frame, fn *ssa.Function, a []Value) Value {
		if a[0].(*Term).cval == 1 {
			in.schedEnable()
		}
		return nil
	}
}

var _ = fmt.Sprintf

func init() {
	intrinsics[verifPkg+".Races"] = func(in *Interp, fr *frame, fn *ssa.Function, a []Value) Value {
		if in.sc != nil && a[0].(*Term).cval == 1 {
			in.sc.race = &raceState{on: true, sync: map[interface{}]vclock{}, cells: map[interface{}]*raceCell{}}
		}
		return nil
	}
	intrinsics[verifPkg+".NativeRounds"] = func(in *Interp, fr *frame, fn *ssa.Function, a []Value) Value {
		return in.tt.BVConst(1, 64)
	}
	intrinsics[verifPkg+".NativeInt"] = func(in *Interp, fr *frame, fn *ssa.Function, a []Value) Value {
		return a[0]
	}
}
