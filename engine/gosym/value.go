package main

// Value model: concrete shapes holding symbolic scalars.
//
//   *Term     bool / integer / float scalar
//   *Str      string (concrete Go string or symbolic cells of concrete length)
//   Ptr       pointer to base[i] (optionally with symbolic index)
//   Slice     slice: native []Value (shares backing, keeps cap, nil-ness)
//   Array     array value
//   Struct    struct value
//   Tuple     multi-value
//   Iface     interface value (dynamic type + value)
//   *Map      map (nil *Map = nil map)
//   *Closure  function value (nil = nil func)
//   *Chan     channel (single-threaded buffered model)
//   *MapIter / *StrIter   range iterators

import (
	"fmt"
	"go/types"
	"strings"

	"golang.org/x/tools/go/ssa"
)

type Value interface{}

type Slice []Value
type Array []Value
type Struct []Value
type Tuple []Value

type Ptr struct {
	base []Value
	i    int
	sym  *Term // non-nil: index is this 64-bit term, known in [0,len(base))
}

func (p Ptr) isNil() bool { return p.base == nil }

type Iface struct {
	t types.Type
	v Value
}

type Closure struct {
	fn  *ssa.Function
	env []Value
}

type Str struct {
	s string
	c []*Term // nil: concrete
	// alias != nil: the string was made by unsafe.String and shares these byte
	// cells with a slice; its contents are re-read from them at every use.
	alias []Value
}

// fix refreshes an aliasing string from the bytes it shares.
func (s *Str) fix() {
	if s.alias == nil {
		return
	}
	c := make([]*Term, len(s.alias))
	for i, v := range s.alias {
		c[i] = v.(*Term)
	}
	s.c = c
}

func (s *Str) Len() int {
	if s.alias != nil {
		return len(s.alias)
	}
	if s.c != nil {
		return len(s.c)
	}
	return len(s.s)
}

type Chan struct {
	buf    []Value
	cap    int
	closed bool
	seq    int // rendezvous bookkeeping (goroutine mode)
	taken  int
}

type Bad struct{}

// ---- maps ----

type Map struct {
	keys  []Value
	vals  []Value
	live  []bool
	index map[string]int // concrete key -> slot
	nsym  int            // number of live entries with symbolic keys
	n     int
}

func newMap() *Map { return &Map{index: map[string]int{}} }

type MapIter struct {
	m     *Map
	order []int
	pos   int
}

type StrIter struct {
	s   *Str
	pos int
}

// concKey returns a canonical string for a fully concrete comparable value.
func concKey(v Value) (string, bool) {
	switch v := v.(type) {
	case *Term:
		if v.IsConst() {
			return fmt.Sprintf("t%d:%x", v.sort.W, v.cval), true
		}
		return "", false
	case *Str:
		v.fix()
		if v.c == nil {
			return "s" + v.s, true
		}
		if s, ok := strConc(v); ok {
			return "s" + s, true
		}
		return "", false
	case Ptr:
		if v.sym != nil {
			return "", false
		}
		if v.base == nil {
			return "pnil", true
		}
		return fmt.Sprintf("p%p", &v.base[v.i]), true
	case Iface:
		if v.t == nil {
			return "inil", true
		}
		k, ok := concKey(v.v)
		return "i" + v.t.String() + "/" + k, ok
	case Struct:
		var sb strings.Builder
		sb.WriteString("{")
		for _, f := range v {
			k, ok := concKey(f)
			if !ok {
				return "", false
			}
			sb.WriteString(k)
			sb.WriteString(";")
		}
		sb.WriteString("}")
		return sb.String(), true
	case Array:
		var sb strings.Builder
		sb.WriteString("[")
		for _, f := range v {
			k, ok := concKey(f)
			if !ok {
				return "", false
			}
			sb.WriteString(k)
			sb.WriteString(";")
		}
		sb.WriteString("]")
		return sb.String(), true
	case *Chan:
		return fmt.Sprintf("c%p", v), true
	case *Closure:
		return fmt.Sprintf("f%p", v), true
	case *Map:
		return fmt.Sprintf("m%p", v), true
	}
	return "", false
}

func strConc(s *Str) (string, bool) {
	s.fix()
	if s.c == nil {
		return s.s, true
	}
	b := make([]byte, len(s.c))
	for i, t := range s.c {
		if !t.IsConst() {
			return "", false
		}
		b[i] = byte(t.cval)
	}
	return string(b), true
}

func copyVal(v Value) Value {
	switch v := v.(type) {
	case Struct:
		n := make(Struct, len(v))
		for i, f := range v {
			n[i] = copyVal(f)
		}
		return n
	case Array:
		n := make(Array, len(v))
		for i, f := range v {
			n[i] = copyVal(f)
		}
		return n
	case Tuple:
		panic("copy of tuple")
	}
	return v
}

func describe(v Value) string {
	switch v := v.(type) {
	case *Term:
		if v.IsConst() {
			return fmt.Sprintf("%d", v.cval)
		}
		return "sym"
	case *Str:
		if s, ok := strConc(v); ok {
			return fmt.Sprintf("%q", s)
		}
		return "symstr"
	case Iface:
		if v.t == nil {
			return "nil"
		}
		return "iface(" + v.t.String() + ")"
	}
	return fmt.Sprintf("%T", v)
}
