package main

// Path exploration: a shared queue of decision prefixes consumed by workers,
// each owning an interpreter and a solver process.

import (
	"fmt"
	"go/types"
	"os"
	"runtime/debug"
	"sort"
	"strings"
	"sync"
	"time"

	"golang.org/x/tools/go/ssa"
)

type workItem struct {
	h      *HarnessRun
	prefix []Decision
	model  map[string]uint64
}

type Witness struct {
	Inputs   []ReplayInput
	Observed []string
	Reached  []string
}

type HarnessRun struct {
	Name     string
	Pkg      string
	Fn       *ssa.Function
	Unwind   int
	Meta     HarnessMeta
	mu       sync.Mutex
	Paths    int // completed (reached the end of the harness)
	Infeasible int
	PanicPaths int
	Decisions int
	Queries  int
	Trivial  int
	Steps    int64
	Inconclusive []string
	Violations []Violation
	violSeen map[string]int
	Witnesses []Witness
	witnessFor map[string]bool
	Funcs    map[string]bool
	Stubs    map[string]int
	Reached  map[string]bool
	GoInlined int
	pending  int
	Start    time.Time
	SolverTime time.Duration
	MaxDepth int
	stopped bool
	StoppedEarly string
}

type Explorer struct {
	prog     *ssa.Program
	cfg      Config
	workers  int
	solver   string
	timeout  int
	thorough bool
	queue    []workItem
	mu       sync.Mutex
	cond     *sync.Cond
	active   int
	stop     bool
	maxPaths int
	deadline time.Time
	failFast bool
	known    *KnownFile
	prop     string
	Warnings map[string]int
	TotalQueries int
	TotalSolverTime time.Duration
}

func NewExplorer(prog *ssa.Program, cfg Config, workers int, solver string, timeoutMs int) *Explorer {
	e := &Explorer{prog: prog, cfg: cfg, workers: workers, solver: solver, timeout: timeoutMs, Warnings: map[string]int{}}
	e.cond = sync.NewCond(&e.mu)
	return e
}

func (e *Explorer) push(it workItem) {
	e.mu.Lock()
	it.h.pending++
	e.queue = append(e.queue, it)
	e.mu.Unlock()
	e.cond.Signal()
}

func (e *Explorer) pop() (workItem, bool) {
	e.mu.Lock()
	defer e.mu.Unlock()
	for {
		if e.stop {
			return workItem{}, false
		}
		if n := len(e.queue); n > 0 {
			// LIFO: depth-first keeps the queue small
			it := e.queue[n-1]
			e.queue = e.queue[:n-1]
			e.active++
			return it, true
		}
		if e.active == 0 {
			e.cond.Broadcast()
			return workItem{}, false
		}
		e.cond.Wait()
	}
}

func (e *Explorer) done(it workItem) {
	e.mu.Lock()
	e.active--
	it.h.pending--
	if e.active == 0 && len(e.queue) == 0 {
		e.cond.Broadcast()
	}
	e.mu.Unlock()
}

func (e *Explorer) Run(hs []*HarnessRun) {
	for _, h := range hs {
		h.Start = time.Now()
		h.violSeen = map[string]int{}
		h.witnessFor = map[string]bool{}
		h.Funcs = map[string]bool{}
		h.Stubs = map[string]int{}
		h.Reached = map[string]bool{}
		e.push(workItem{h: h})
	}
	var wg sync.WaitGroup
	for w := 0; w < e.workers; w++ {
		wg.Add(1)
		go func(id int) {
			defer wg.Done()
			e.worker(id)
		}(w)
	}
	wg.Wait()
}

func (e *Explorer) worker(id int) {
	solver, err := NewSolver(e.solver, e.timeout)
	if err != nil {
		fmt.Fprintln(os.Stderr, "cannot start solver:", err)
		return
	}
	defer solver.Close()
	if lf := os.Getenv("GOSYM_SMTLOG"); lf != "" && id == 0 {
		f, _ := os.Create(lf)
		solver.log = f
	}
	in := NewInterp(e.prog, solver, e.cfg)
	in.thorough = e.thorough
	if e.cfg.Debug {
		in.forkSites = map[string]int{}
	}
	for {
		it, ok := e.pop()
		if !ok {
			break
		}
		e.runPath(in, it)
		e.done(it)
	}
	e.mu.Lock()
	for k, v := range in.warnings {
		e.Warnings[k] += v
	}
	for k, v := range in.forkSites {
		e.Warnings["fork-site: "+k] += v
	}
	e.TotalQueries += solver.Queries
	e.TotalSolverTime += solver.Time
	for _, alt := range in.solverAlt {
		if alt != solver {
			e.TotalQueries += alt.Queries
			e.TotalSolverTime += alt.Time
			alt.Close()
		}
	}
	e.mu.Unlock()
}

func (e *Explorer) runPath(in *Interp, it workItem) {
	h := it.h
	in.harness = h.Name
	e.selectSolver(in, h)
	in.resetPath(it.prefix, it.model)
	if h.Unwind > 0 {
		in.cfg.Unwind = h.Unwind
	} else {
		in.cfg.Unwind = e.cfg.Unwind
	}
	in.funcsSeen = map[string]bool{}
	in.stubsHit = map[string]int{}
	q0 := in.nQueries
	t0 := in.nTrivial
	st0 := solver0(in)
	in.onFork = func(prefix []Decision, model map[string]uint64) {
		if h.stopped {
			return
		}
		e.push(workItem{h: h, prefix: prefix, model: model})
	}
	in.onViolation = func(v Violation) {
		h.mu.Lock()
		defer h.mu.Unlock()
		h.violSeen[v.ID]++
		if h.violSeen[v.ID] <= 3 {
			h.Violations = append(h.Violations, v)
		}
		if e.failFast && !h.stopped && v.ID != "data-race" && findKnown(e.known, e.prop, h.Name, v.ID) == nil {
			// an unlisted violation decides the verdict: stop exploring this harness
			h.stopped = true
			h.StoppedEarly = "exploration stopped at the first violation that is not a listed known finding"
			e.mu.Lock()
			q := e.queue[:0]
			for _, w := range e.queue {
				if w.h != h {
					q = append(q, w)
				} else {
					h.pending--
				}
			}
			e.queue = q
			e.mu.Unlock()
		}
	}
	outcome := "done"
	msg := ""
	func() {
		defer func() {
			if r := recover(); r != nil {
				switch r := r.(type) {
				case pathEnd:
					outcome, msg = r.kind, r.msg
				case *targetPanic:
					outcome, msg = "panic", r.msg
				case goroutinePanic:
					outcome, msg = "panic", "in a goroutine (crashes the process): "+r.tp.msg
				default:
					outcome = "engine-crash"
					msg = fmt.Sprintf("%v\n%s", r, debug.Stack())
					if os.Getenv("GOSYM_CRASH") != "" {
						fmt.Fprintln(os.Stderr, "ENGINE-CRASH", msg)
					}
				}
			}
		}()
		in.curFrame = nil
		defer in.endGoroutines()
		in.callSSA(nil, h.Fn, nil, nil)
	}()
	if outcome == "panic" {
		// an escaped panic of the real code is a violation of the implicit
		// no-crash assertion of every harness
		func() {
			defer func() {
				if r := recover(); r != nil {
					if pe, ok := r.(pathEnd); ok && pe.kind != "infeasible" {
						outcome, msg = pe.kind, pe.msg
					} else if ok {
						outcome = "infeasible"
					}
				}
			}()
			if in.ensureModel() {
				in.onViolation(Violation{Harness: h.Name, ID: "panic", Msg: "escaped panic: " + msg, Inputs: in.modelInputs(in.model)})
			} else {
				outcome = "infeasible"
			}
		}()
	}
	if outcome == "limit" && (strings.Contains(msg, "symbolic decisions on one path") || strings.Contains(msg, "unwinding assertion") || strings.Contains(msg, "interpreter steps") || strings.Contains(msg, "call depth")) {
		// A failed unwinding assertion: either the bound is too small or the
		// real code does not terminate on these inputs.  The native replay
		// decides: the inputs are run against the real build under a deadline
		// and a run that does not come back is reported as the violation
		// `terminates`; otherwise the path stays INCONCLUSIVE.
		func() {
			defer func() { recover() }()
			h.mu.Lock()
			have := h.violSeen["terminates"]
			h.mu.Unlock()
			if have == 0 && in.ensureModel() {
				in.onViolation(Violation{Harness: h.Name, ID: "terminates", Msg: "unwinding assertion failed and the native run does not terminate: " + msg, Inputs: in.modelInputs(in.model)})
			}
		}()
	}
	var wit *Witness
	if outcome == "done" {
		// witness for vacuity / translator validation: first completed path and
		// first path for each Reach label
		need := false
		h.mu.Lock()
		if h.Paths == 0 {
			need = true
		}
		for r := range in.reached {
			if !h.witnessFor[r] {
				need = true
			}
		}
		h.mu.Unlock()
		if need {
			func() {
				defer func() { recover() }()
				if in.ensureModel() {
					w := Witness{Inputs: in.modelInputs(in.model)}
					for _, o := range in.observes {
						w.Observed = append(w.Observed, o.Name+"="+o.Val)
					}
					for _, ob := range in.pendingObs {
						w.Observed = append(w.Observed, ob.name+"="+in.renderObs(ob))
					}
					for r := range in.reached {
						w.Reached = append(w.Reached, r)
					}
					sort.Strings(w.Reached)
					wit = &w
				}
			}()
		}
	}
	h.mu.Lock()
	defer h.mu.Unlock()
	switch outcome {
	case "done":
		h.Paths++
		for r := range in.reached {
			h.Reached[r] = true
		}
		if wit != nil {
			h.Witnesses = append(h.Witnesses, *wit)
			for _, r := range wit.Reached {
				h.witnessFor[r] = true
			}
		}
	case "infeasible":
		h.Infeasible++
	case "panic":
		h.PanicPaths++
	default:
		if len(h.Inconclusive) < 20 {
			h.Inconclusive = append(h.Inconclusive, outcome+": "+firstLine(msg, outcome == "engine-crash"))
		}
	}
	h.Decisions += len(in.trace)
	if len(in.trace) > h.MaxDepth {
		h.MaxDepth = len(in.trace)
	}
	h.Queries += in.nQueries - q0
	h.Trivial += in.nTrivial - t0
	h.Steps += int64(in.steps)
	h.SolverTime += in.solver.Time - st0
	h.GoInlined += in.goInlined
	for f := range in.funcsSeen {
		h.Funcs[f] = true
	}
	for s, n := range in.stubsHit {
		h.Stubs[s] += n
	}
	if e.maxPaths > 0 && h.Paths+h.Infeasible+h.PanicPaths > e.maxPaths {
		if len(h.Inconclusive) < 20 {
			h.Inconclusive = append(h.Inconclusive, fmt.Sprintf("limit: more than %d paths", e.maxPaths))
		}
		e.mu.Lock()
		// drop queued items of this harness
		q := e.queue[:0]
		for _, w := range e.queue {
			if w.h != h {
				q = append(q, w)
			} else {
				h.pending--
			}
		}
		e.queue = q
		e.mu.Unlock()
	}
}

func solver0(in *Interp) time.Duration { return in.solver.Time }

// selectSolver honours a harness's "verif:solver <kind>" directive: the worker
// keeps one extra solver process per kind and the interpreter is pointed at it
// for the paths of that harness (and back at the default one for the others).
func (e *Explorer) selectSolver(in *Interp, h *HarnessRun) {
	if in.solverAlt == nil {
		in.solverAlt = map[string]*Solver{in.solver.kind: in.solver}
	}
	kind := h.Meta.Solver
	if kind == "" {
		kind = e.solver
	}
	if in.solver.kind == kind {
		return
	}
	s := in.solverAlt[kind]
	if s == nil {
		var err error
		if s, err = NewSolver(kind, e.timeout); err != nil {
			fmt.Fprintln(os.Stderr, "cannot start solver:", err)
			return
		}
		s.log = in.solver.log
		in.solverAlt[kind] = s
	}
	in.solver = s
}

func firstLine(s string, full bool) string {
	if full {
		if len(s) > 3000 {
			return s[:3000]
		}
		return s
	}
	if i := strings.IndexByte(s, '\n'); i >= 0 {
		return s[:i]
	}
	return s
}

// ---- Observe support ----

type pendingObs struct {
	name string
	t    types.Type
	v    Value
}

func (in *Interp) renderObs(o pendingObs) string {
	return in.renderVal(o.t, o.v)
}

func (in *Interp) renderVal(t types.Type, v Value) string {
	switch v := v.(type) {
	case *Term:
		val, ok := in.evalModel(v)
		if !ok {
			return "?"
		}
		switch v.sort.K {
		case SBool:
			if val == 1 {
				return "true"
			}
			return "false"
		case SBV:
			_, signed, _ := intInfo(t)
			if signed {
				return fmt.Sprint(sext(val, v.sort.W))
			}
			return fmt.Sprint(val)
		case SFP:
			c := in.tt.FPConstBits(val, v.sort.W)
			if v.sort.W == 32 {
				return fmt.Sprint(float32(fpVal(c)))
			}
			return fmt.Sprint(fpVal(c))
		}
	case *Str:
		b := make([]byte, v.Len())
		for i, c := range in.cells(v) {
			x, ok := in.evalModel(c)
			if !ok {
				return "?"
			}
			b[i] = byte(x)
		}
		return string(b)
	case Slice:
		var sb strings.Builder
		sb.WriteString("[")
		var et types.Type
		if st, ok := t.Underlying().(*types.Slice); ok {
			et = st.Elem()
		}
		for i, e := range v {
			if i > 0 {
				sb.WriteString(" ")
			}
			sb.WriteString(in.renderVal(et, e))
		}
		sb.WriteString("]")
		return sb.String()
	}
	return "?"
}
