package main

import (
	"fmt"
	"go/token"
	"go/types"
	"unicode/utf8"

	"golang.org/x/tools/go/ssa"
)

func (in *Interp) unop(fr *frame, instr *ssa.UnOp, x Value) Value {
	switch instr.Op {
	case token.ARROW:
		return in.chanRecv(fr, x, instr.X.Type(), instr.CommaOk)
	case token.MUL:
		return in.load(fr, x.(Ptr))
	case token.NOT:
		return in.tt.Not(x.(*Term))
	case token.SUB:
		t := x.(*Term)
		if t.sort.K == SFP {
			return in.tt.FNeg(t)
		}
		return in.tt.BinBV(OSub, in.tt.BVConst(0, t.sort.W), t)
	case token.XOR:
		t := x.(*Term)
		return in.tt.BinBV(OBXor, t, in.tt.BVConst(mask(t.sort.W), t.sort.W))
	}
	unsupported("unary op %s", instr.Op)
	return nil
}

func (in *Interp) binop(fr *frame, op token.Token, tx, ty types.Type, x, y Value) Value {
	switch xv := x.(type) {
	case *Term:
		yv, ok := y.(*Term)
		if !ok {
			break
		}
		switch xv.sort.K {
		case SBool:
			switch op {
			case token.EQL:
				return in.tt.Eq(xv, yv)
			case token.NEQ:
				return in.tt.Not(in.tt.Eq(xv, yv))
			case token.AND, token.LAND:
				return in.tt.And(xv, yv)
			case token.OR, token.LOR:
				return in.tt.Or(xv, yv)
			}
		case SBV:
			return in.intBinop(fr, op, tx, ty, xv, yv)
		case SFP:
			return in.floatBinop(op, xv, yv)
		}
	case *Str:
		yv := y.(*Str)
		switch op {
		case token.ADD:
			return in.strConcat(xv, yv)
		case token.EQL:
			return in.strEq(xv, yv)
		case token.NEQ:
			return in.tt.Not(in.strEq(xv, yv))
		case token.LSS:
			return in.strLess(xv, yv, false)
		case token.LEQ:
			return in.strLess(xv, yv, true)
		case token.GTR:
			return in.strLess(yv, xv, false)
		case token.GEQ:
			return in.strLess(yv, xv, true)
		}
	}
	switch op {
	case token.EQL:
		return in.eqVal(tx, x, y)
	case token.NEQ:
		return in.tt.Not(in.eqVal(tx, x, y))
	}
	unsupported("binary op %s on %T,%T", op, x, y)
	return nil
}

func (in *Interp) intBinop(fr *frame, op token.Token, tx, ty types.Type, x, y *Term) Value {
	tt := in.tt
	w := x.sort.W
	_, signed, _ := intInfo(tx)
	switch op {
	case token.ADD:
		return tt.BinBV(OAdd, x, y)
	case token.SUB:
		return tt.BinBV(OSub, x, y)
	case token.MUL:
		return tt.BinBV(OMul, x, y)
	case token.QUO, token.REM:
		in.curFrame = fr
		if in.decide(tt.Eq(y, tt.BVConst(0, w))) {
			in.throw(fr, "integer divide by zero")
		}
		if signed {
			if op == token.QUO {
				return tt.BinBV(OSDiv, x, y)
			}
			return tt.BinBV(OSRem, x, y)
		}
		if op == token.QUO {
			return tt.BinBV(OUDiv, x, y)
		}
		return tt.BinBV(OURem, x, y)
	case token.AND:
		return tt.BinBV(OBAnd, x, y)
	case token.OR:
		return tt.BinBV(OBOr, x, y)
	case token.XOR:
		return tt.BinBV(OBXor, x, y)
	case token.AND_NOT:
		return tt.BinBV(OBAnd, x, tt.BinBV(OBXor, y, tt.BVConst(mask(w), w)))
	case token.SHL, token.SHR:
		_, ysigned, _ := intInfo(ty)
		if ysigned {
			in.curFrame = fr
			if in.decide(tt.CmpBV(OSlt, y, tt.BVConst(0, y.sort.W))) {
				in.throw(fr, "negative shift amount")
			}
		}
		// normalise the shift amount to x's width, saturating
		var amt *Term
		var big *Term = tt.Bool(false)
		if y.sort.W > w {
			big = tt.CmpBV(OUle, tt.BVConst(uint64(w), y.sort.W), y)
			amt = tt.Extract(y, w-1, 0)
		} else {
			amt = tt.ZExt(y, w)
		}
		var sop Op
		var over *Term
		switch {
		case op == token.SHL:
			sop, over = OShl, tt.BVConst(0, w)
		case signed:
			sop = OAShr
			over = tt.BinBV(OAShr, x, tt.BVConst(uint64(w-1), w))
		default:
			sop, over = OLShr, tt.BVConst(0, w)
		}
		return tt.Ite(big, over, tt.BinBV(sop, x, amt))
	case token.EQL:
		return tt.Eq(x, y)
	case token.NEQ:
		return tt.Not(tt.Eq(x, y))
	case token.LSS:
		if signed {
			return tt.CmpBV(OSlt, x, y)
		}
		return tt.CmpBV(OUlt, x, y)
	case token.LEQ:
		if signed {
			return tt.CmpBV(OSle, x, y)
		}
		return tt.CmpBV(OUle, x, y)
	case token.GTR:
		if signed {
			return tt.CmpBV(OSlt, y, x)
		}
		return tt.CmpBV(OUlt, y, x)
	case token.GEQ:
		if signed {
			return tt.CmpBV(OSle, y, x)
		}
		return tt.CmpBV(OUle, y, x)
	}
	unsupported("int binop %s", op)
	return nil
}

func (in *Interp) floatBinop(op token.Token, x, y *Term) Value {
	tt := in.tt
	switch op {
	case token.ADD:
		return tt.BinFP(OFAdd, x, y)
	case token.SUB:
		return tt.BinFP(OFSub, x, y)
	case token.MUL:
		return tt.BinFP(OFMul, x, y)
	case token.QUO:
		return tt.BinFP(OFDiv, x, y)
	case token.EQL:
		return tt.CmpFP(OFEq, x, y)
	case token.NEQ:
		return tt.Not(tt.CmpFP(OFEq, x, y))
	case token.LSS:
		return tt.CmpFP(OFLt, x, y)
	case token.LEQ:
		return tt.CmpFP(OFLe, x, y)
	case token.GTR:
		return tt.CmpFP(OFLt, y, x)
	case token.GEQ:
		return tt.CmpFP(OFLe, y, x)
	}
	unsupported("float binop %s", op)
	return nil
}

// eqVal is Go's == for comparable types, as a Bool term.
func (in *Interp) eqVal(t types.Type, x, y Value) *Term {
	tt := in.tt
	switch xv := x.(type) {
	case *Term:
		yv := y.(*Term)
		if xv.sort.K == SFP {
			return tt.CmpFP(OFEq, xv, yv)
		}
		return tt.Eq(xv, yv)
	case *Str:
		return in.strEq(xv, y.(*Str))
	case Ptr:
		yv := y.(Ptr)
		if xv.base == nil || yv.base == nil {
			return tt.Bool(xv.base == nil && yv.base == nil)
		}
		if len(xv.base) == 0 || len(yv.base) == 0 {
			return tt.Bool(len(xv.base) == 0 && len(yv.base) == 0 && xv.i == yv.i)
		}
		if xv.sym != nil || yv.sym != nil {
			if &xv.base[0] != &yv.base[0] {
				return tt.Bool(false)
			}
			xi, yi := xv.sym, yv.sym
			if xi == nil {
				xi = tt.BVConst(uint64(xv.i), 64)
			}
			if yi == nil {
				yi = tt.BVConst(uint64(yv.i), 64)
			}
			return tt.Eq(xi, yi)
		}
		return tt.Bool(&xv.base[xv.i] == &yv.base[yv.i])
	case Iface:
		yv := y.(Iface)
		if xv.t == nil || yv.t == nil {
			return tt.Bool(xv.t == nil && yv.t == nil)
		}
		if !types.Identical(xv.t, yv.t) {
			return tt.Bool(false)
		}
		if !types.Comparable(xv.t) {
			in.throw(in.curFrame, "comparing uncomparable type "+xv.t.String())
		}
		return in.eqVal(xv.t, xv.v, yv.v)
	case Struct:
		yv := y.(Struct)
		st := t.Underlying().(*types.Struct)
		r := tt.Bool(true)
		for i := range xv {
			if st.Field(i).Name() == "_" {
				continue
			}
			r = tt.And(r, in.eqVal(st.Field(i).Type(), xv[i], yv[i]))
		}
		return r
	case Array:
		yv := y.(Array)
		et := t.Underlying().(*types.Array).Elem()
		r := tt.Bool(true)
		for i := range xv {
			r = tt.And(r, in.eqVal(et, xv[i], yv[i]))
		}
		return r
	case *Map:
		yv := y.(*Map)
		return tt.Bool(xv == yv)
	case Slice:
		yv := y.(Slice)
		return tt.Bool(xv == nil && yv == nil)
	case *Closure:
		yv := y.(*Closure)
		return tt.Bool(xv == nil && yv == nil || xv == yv)
	case *Chan:
		return tt.Bool(xv == y.(*Chan))
	}
	unsupported("== on %T", x)
	return nil
}

// ---- conversions ----

func (in *Interp) conv(fr *frame, tdst, tsrc types.Type, x Value) Value {
	tt := in.tt
	udst, usrc := tdst.Underlying(), tsrc.Underlying()
	switch xv := x.(type) {
	case *Term:
		if sw, ssigned, ok := intInfo(usrc); ok {
			_ = sw
			if dw, _, ok := intInfo(udst); ok {
				if ssigned {
					return tt.SExt(xv, dw)
				}
				return tt.ZExt(xv, dw)
			}
			if fw := floatWidth(udst); fw != 0 {
				return tt.IntToFP(xv, ssigned, fw)
			}
			if isString(udst) {
				// string(rune)
				if !xv.IsConst() {
					enc := in.findFunc("unicode/utf8", "AppendRune")
					if enc == nil {
						unsupported("string(symbolic rune)")
					}
					var r *Term
					if ssigned {
						r = tt.SExt(xv, 32)
					} else {
						r = tt.ZExt(xv, 32)
					}
					if xv.sort.W > 32 {
						// out of range values become U+FFFD
						in.curFrame = fr
						if !in.decide(tt.CmpBV(OUle, xv, tt.BVConst(0x10FFFF, xv.sort.W))) {
							return in.str("�")
						}
						r = tt.Extract(xv, 31, 0)
					}
					res := in.callSSA(fr, enc, []Value{Slice(nil), r}, nil).(Slice)
					return in.bytesToStr(res)
				}
				v := sext(xv.cval, xv.sort.W)
				if !ssigned {
					v = int64(xv.cval)
				}
				if v < 0 || v > utf8.MaxRune {
					return in.str("�")
				}
				return in.str(string(rune(v)))
			}
			if b, ok := udst.(*types.Basic); ok && b.Kind() == types.UnsafePointer {
				if xv.IsConst() && xv.cval == 0 {
					return Ptr{}
				}
				unsupported("conversion of integer to unsafe.Pointer")
			}
		}
		if sfw := floatWidth(usrc); sfw != 0 {
			if fw := floatWidth(udst); fw != 0 {
				return tt.FPToFP(xv, fw)
			}
			if dw, dsigned, ok := intInfo(udst); ok {
				return in.fpToInt(xv, dsigned, dw)
			}
		}
		if isBool(usrc) && isBool(udst) {
			return xv
		}
	case *Str:
		switch d := udst.(type) {
		case *types.Basic:
			if isString(d) {
				return xv
			}
		case *types.Slice:
			eb, _ := d.Elem().Underlying().(*types.Basic)
			if eb != nil && eb.Kind() == types.Uint8 {
				return in.strToBytes(xv)
			}
			if eb != nil && eb.Kind() == types.Int32 {
				s, ok := strConc(xv)
				if !ok {
					unsupported("[]rune(symbolic string)")
				}
				var res Slice = Slice{}
				for _, r := range s {
					res = append(res, tt.BVConst(uint64(r), 32))
				}
				return res
			}
		}
	case Slice:
		if isString(udst) {
			es := usrc.(*types.Slice).Elem().Underlying().(*types.Basic)
			if es.Kind() == types.Uint8 {
				return in.bytesToStr(xv)
			}
			if es.Kind() == types.Int32 {
				rs := make([]rune, len(xv))
				for i, e := range xv {
					t := e.(*Term)
					if !t.IsConst() {
						unsupported("string([]rune) with symbolic runes")
					}
					rs[i] = rune(sext(t.cval, 32))
				}
				return in.str(string(rs))
			}
		}
		if _, ok := udst.(*types.Slice); ok {
			return xv
		}
		if pa, ok := udst.(*types.Array); ok {
			// slice to array conversion (Go 1.20)
			n := int(pa.Len())
			if len(xv) < n {
				in.throw(fr, "cannot convert slice to array: length too short")
			}
			return copyVal(Array(xv[:n]))
		}
	case Ptr:
		// pointer <-> unsafe.Pointer, pointer to pointer (via unsafe)
		switch d := udst.(type) {
		case *types.Pointer:
			return in.retypePtr(xv, d.Elem())
		case *types.Basic:
			if d.Kind() == types.UnsafePointer {
				return xv
			}
			if d.Kind() == types.Uintptr {
				if xv.isNil() {
					return tt.BVConst(0, 64)
				}
				// address as an opaque non-zero constant; only comparisons with 0 are meaningful
				in.warn("uintptr(pointer) conversion: address modelled as opaque constant")
				return tt.BVConst(0xC000000000+uint64(xv.i)*8, 64)
			}
		}
	}
	if types.Identical(udst, usrc) {
		return x
	}
	unsupported("conversion %v -> %v of %T", tsrc, tdst, x)
	return nil
}

// retypePtr handles unsafe casts between pointer types.  Supported: identity
// of layout (same representation), *[N]T <-> *T at element 0, and
// *struct{...} whose first field chain matches.
func (in *Interp) retypePtr(p Ptr, elem types.Type) Value {
	if p.isNil() || p.sym != nil {
		return p
	}
	cur := p.base[p.i]
	switch eu := elem.Underlying().(type) {
	case *types.Array:
		// *T -> *[N]T : view of the backing storage starting at p.i
		if _, isArr := cur.(Array); !isArr {
			n := int(eu.Len())
			if p.i+n <= cap(p.base[p.i:]) && p.i+n <= len(p.base[:cap(p.base)]) {
				full := p.base[:cap(p.base)]
				if p.i+n <= len(full) {
					return Ptr{base: []Value{Array(full[p.i : p.i+n : p.i+n])}}
				}
			}
			unsupported("unsafe cast to *[%d]T beyond the allocation", n)
		}
	default:
		if arr, isArr := cur.(Array); isArr {
			if _, dstArr := elem.Underlying().(*types.Array); !dstArr && len(arr) > 0 {
				if _, isScalar := arr[0].(*Term); isScalar {
					if _, wantScalar := in.zero(elem).(*Term); wantScalar {
						return Ptr{base: []Value(arr), i: 0}
					}
				}
			}
		}
	}
	return p
}

// fpToInt models Go's float->int conversion on amd64: in-range values
// truncate toward zero; NaN and out-of-range produce 0x8000... (signed 64/32
// via CVTTSD2SQ) — for narrower types the 64-bit result is truncated.
// Unsigned 64-bit conversion follows the compiler's two-branch sequence.
func (in *Interp) fpToInt(f *Term, signed bool, w int) *Term {
	tt := in.tt
	f64 := tt.FPToFP(f, 64)
	if f.IsConst() {
		v := fpVal(f)
		var r uint64
		if signed || w < 64 {
			r = uint64(cvttsd2sq(v))
		} else {
			if v < 9223372036854775808.0 {
				r = uint64(cvttsd2sq(v))
			} else {
				r = uint64(cvttsd2sq(v-9223372036854775808.0)) ^ (1 << 63)
			}
		}
		return tt.BVConst(r, w)
	}
	two63 := tt.FPConst64(9223372036854775808.0)
	negTwo63 := tt.FPConst64(-9223372036854775808.0)
	indef := tt.BVConst(1<<63, 64)
	cvt := func(x *Term) *Term {
		inRange := tt.And(tt.CmpFP(OFLe, negTwo63, x), tt.CmpFP(OFLt, x, two63))
		return tt.Ite(inRange, tt.FPToIntRaw(x, true, 64), indef)
	}
	var r *Term
	if signed || w < 64 {
		r = cvt(f64)
	} else {
		lt := tt.CmpFP(OFLt, f64, two63)
		hi := tt.BinBV(OBXor, cvt(tt.BinFP(OFSub, f64, two63)), indef)
		r = tt.Ite(lt, cvt(f64), hi)
	}
	return tt.Extract(r, w-1, 0)
}

func cvttsd2sq(v float64) int64 {
	if v != v || v >= 9223372036854775808.0 || v < -9223372036854775808.0 {
		return -1 << 63
	}
	return int64(v)
}

// ---- strings ----

func (in *Interp) cells(s *Str) []*Term {
	s.fix()
	if s.c != nil {
		return s.c
	}
	c := make([]*Term, len(s.s))
	for i := 0; i < len(s.s); i++ {
		c[i] = in.byteC[s.s[i]]
	}
	return c
}

func (in *Interp) mkStr(c []*Term) *Str {
	all := true
	for _, t := range c {
		if !t.IsConst() {
			all = false
			break
		}
	}
	if all {
		b := make([]byte, len(c))
		for i, t := range c {
			b[i] = byte(t.cval)
		}
		return &Str{s: string(b)}
	}
	if c == nil {
		c = []*Term{}
	}
	return &Str{c: c}
}

func (in *Interp) strConcat(x, y *Str) *Str {
	x.fix()
	y.fix()
	if x.c == nil && y.c == nil {
		return &Str{s: x.s + y.s}
	}
	if x.Len() == 0 {
		return y
	}
	if y.Len() == 0 {
		return x
	}
	return &Str{c: append(append([]*Term(nil), in.cells(x)...), in.cells(y)...)}
}

func (in *Interp) strSlice(x *Str, l, h int) *Str {
	if x.alias != nil {
		// a substring of an aliasing string aliases the same bytes
		return &Str{alias: x.alias[l:h:h]}
	}
	if x.c == nil {
		return &Str{s: x.s[l:h]}
	}
	return in.mkStr(x.c[l:h:h])
}

func (in *Interp) strEq(x, y *Str) *Term {
	x.fix()
	y.fix()
	if x.Len() != y.Len() {
		return in.tt.Bool(false)
	}
	if x.c == nil && y.c == nil {
		return in.tt.Bool(x.s == y.s)
	}
	xc, yc := in.cells(x), in.cells(y)
	r := in.tt.Bool(true)
	for i := range xc {
		r = in.tt.And(r, in.tt.Eq(xc[i], yc[i]))
		if r.IsFalse() {
			return r
		}
	}
	return r
}

// strLess: x < y (or <= if orEq), lexicographic on bytes.
func (in *Interp) strLess(x, y *Str, orEq bool) *Term {
	x.fix()
	y.fix()
	if x.c == nil && y.c == nil {
		if orEq {
			return in.tt.Bool(x.s <= y.s)
		}
		return in.tt.Bool(x.s < y.s)
	}
	return in.cellsLess(in.cells(x), in.cells(y), orEq)
}

func (in *Interp) cellsLess(xc, yc []*Term, orEq bool) *Term {
	tt := in.tt
	n := len(xc)
	if len(yc) < n {
		n = len(yc)
	}
	// result when all first n bytes equal
	var r *Term
	if orEq {
		r = tt.Bool(len(xc) <= len(yc))
	} else {
		r = tt.Bool(len(xc) < len(yc))
	}
	for i := n - 1; i >= 0; i-- {
		r = tt.Ite(tt.Eq(xc[i], yc[i]), r, tt.CmpBV(OUlt, xc[i], yc[i]))
	}
	return r
}

func (in *Interp) strIndex(fr *frame, s *Str, idx *Term, it types.Type) Value {
	idx = in.idx64(idx, it)
	s.fix()
	n := s.Len()
	in.boundsCheck(fr, idx, n, false, "index")
	if idx.IsConst() {
		if s.c == nil {
			return in.byteC[s.s[idx.cval]]
		}
		return s.c[idx.cval]
	}
	c := in.cells(s)
	res := c[n-1]
	for j := n - 2; j >= 0; j-- {
		res = in.tt.Ite(in.tt.Eq(idx, in.tt.BVConst(uint64(j), 64)), c[j], res)
	}
	return res
}

func (in *Interp) strToBytes(s *Str) Slice {
	c := in.cells(s)
	res := make(Slice, len(c))
	for i, t := range c {
		res[i] = t
	}
	return res
}

func (in *Interp) bytesToStr(b Slice) *Str {
	c := make([]*Term, len(b))
	for i, v := range b {
		c[i] = v.(*Term)
	}
	return in.mkStr(c)
}

// ---- lookup / maps ----

func (in *Interp) lookup(fr *frame, instr *ssa.Lookup, x Value, idx Value) Value {
	if m, ok := x.(*Map); ok && m != nil && in.sc != nil && in.sc.race != nil {
		in.raceAccess(fr, m, false)
	}
	switch xv := x.(type) {
	case *Str:
		return in.strIndex(fr, xv, idx.(*Term), instr.Index.Type())
	case *Map:
		mt := instr.X.Type().Underlying().(*types.Map)
		var v Value
		found := false
		if xv != nil {
			if slot := in.mapFind(fr, xv, mt.Key(), idx); slot >= 0 {
				v = copyVal(xv.vals[slot])
				found = true
			}
		}
		if !found {
			v = in.zero(mt.Elem())
		}
		if instr.CommaOk {
			return Tuple{v, in.tt.Bool(found)}
		}
		return v
	}
	panic(fmt.Sprintf("lookup in %T", x))
}

// mapFind returns the slot of key or -1, forking on symbolic key equality.
func (in *Interp) mapFind(fr *frame, m *Map, kt types.Type, key Value) int {
	if ifc, ok := key.(Iface); ok && ifc.t != nil && !types.Comparable(ifc.t) {
		in.throw(fr, "hash of unhashable type "+ifc.t.String())
	}
	ck, conc := concKey(key)
	if conc {
		if slot, ok := m.index[ck]; ok && m.live[slot] {
			return slot
		}
		if m.nsym == 0 {
			return -1
		}
	}
	in.curFrame = fr
	for i := range m.keys {
		if !m.live[i] {
			continue
		}
		if conc {
			if _, c2 := concKey(m.keys[i]); c2 {
				continue // distinct concrete keys
			}
		}
		if in.decide(in.eqVal(kt, m.keys[i], key)) {
			return i
		}
	}
	return -1
}

func (in *Interp) mapSet(fr *frame, m *Map, key, val Value) {
	if in.sc != nil && in.sc.race != nil {
		in.raceAccess(fr, m, true)
	}
	// key type is not needed for concrete keys; for symbolic ones eqVal works on dynamic shapes
	slot := in.mapFind(fr, m, nil, key)
	if slot >= 0 {
		m.vals[slot] = copyVal(val)
		return
	}
	m.keys = append(m.keys, copyVal(key))
	m.vals = append(m.vals, copyVal(val))
	m.live = append(m.live, true)
	m.n++
	if ck, conc := concKey(key); conc {
		m.index[ck] = len(m.keys) - 1
	} else {
		m.nsym++
	}
}

func (in *Interp) mapDelete(fr *frame, m *Map, key Value) {
	if m != nil && in.sc != nil && in.sc.race != nil {
		in.raceAccess(fr, m, true)
	}
	if m == nil {
		return
	}
	slot := in.mapFind(fr, m, nil, key)
	if slot < 0 {
		return
	}
	m.live[slot] = false
	m.n--
	if ck, conc := concKey(m.keys[slot]); conc {
		delete(m.index, ck)
	} else {
		m.nsym--
	}
}

// ---- builtins ----

func (in *Interp) callBuiltin(fr *frame, fn *ssa.Builtin, args []Value) Value {
	tt := in.tt
	switch fn.Name() {
	case "append":
		if len(args) == 1 {
			return args[0]
		}
		dst := args[0].(Slice)
		var src []Value
		switch s := args[1].(type) {
		case Slice:
			src = s
		case *Str:
			src = in.strToBytes(s)
		}
		if len(src) == 0 {
			return dst
		}
		n := len(dst) + len(src)
		if in.sc != nil && in.sc.race != nil {
			if _, srcIsSlice := args[1].(Slice); srcIsSlice {
				for i := range src {
					in.raceAccess(nil, &src[i], false)
				}
			}
			if n <= cap(dst) {
				spare := dst[:n]
				for i := len(dst); i < n; i++ {
					in.raceAccess(nil, &spare[i], true)
				}
			} else {
				for i := range dst {
					in.raceAccess(nil, &dst[i], false)
				}
			}
		}
		if n <= cap(dst) {
			res := dst[:n]
			// src may alias dst's spare capacity (append(b[:k], b[j:]...)):
			// memmove semantics, so snapshot src before storing
			tmp := make([]Value, len(src))
			for i, v := range src {
				tmp[i] = copyVal(v)
			}
			copy(res[len(dst):], tmp)
			return res
		}
		// grow like the Go runtime's general shape (double, or exact if larger)
		nc := 2 * cap(dst)
		if nc < n {
			nc = n
		}
		if cap(dst) >= 256 {
			nc = cap(dst) + (cap(dst)+3*256)/4
			if nc < n {
				nc = n
			}
		}
		if nc < 8 && len(src) > 0 {
			if _, isB := src[0].(*Term); isB && src[0].(*Term).sort.W == 8 {
				if nc < 8 {
					nc = 8
				}
			}
		}
		res := make(Slice, n, nc)
		copy(res, dst)
		for i, v := range src {
			res[len(dst)+i] = copyVal(v)
		}
		// zero the spare capacity
		if nc > n {
			var z Value
			if len(dst) > 0 {
				z = in.zeroLike(dst[0])
			} else {
				z = in.zeroLike(src[0])
			}
			full := res[:nc]
			for i := n; i < nc; i++ {
				full[i] = copyVal(z)
			}
		}
		return res
	case "copy":
		dst := args[0].(Slice)
		var src []Value
		switch s := args[1].(type) {
		case Slice:
			src = s
		case *Str:
			src = in.strToBytes(s)
		}
		n := len(dst)
		if len(src) < n {
			n = len(src)
		}
		if n > 0 {
			if in.sc != nil && in.sc.race != nil {
				_, srcIsSlice := args[1].(Slice)
				for i := 0; i < n; i++ {
					if srcIsSlice {
						in.raceAccess(nil, &src[i], false)
					}
					in.raceAccess(nil, &dst[i], true)
				}
			}
			tmp := make([]Value, n)
			for i := 0; i < n; i++ {
				tmp[i] = copyVal(src[i])
			}
			copy(dst, tmp)
		}
		return tt.BVConst(uint64(n), 64)
	case "len":
		switch x := args[0].(type) {
		case *Str:
			return tt.BVConst(uint64(x.Len()), 64)
		case Slice:
			return tt.BVConst(uint64(len(x)), 64)
		case Array:
			return tt.BVConst(uint64(len(x)), 64)
		case Ptr:
			return tt.BVConst(uint64(len(in.loadRaw(x).(Array))), 64)
		case *Map:
			if x == nil {
				return tt.BVConst(0, 64)
			}
			return tt.BVConst(uint64(x.n), 64)
		case *Chan:
			if x == nil {
				return tt.BVConst(0, 64)
			}
			return tt.BVConst(uint64(len(x.buf)), 64)
		}
	case "cap":
		switch x := args[0].(type) {
		case Slice:
			return tt.BVConst(uint64(cap(x)), 64)
		case Array:
			return tt.BVConst(uint64(len(x)), 64)
		case Ptr:
			return tt.BVConst(uint64(len(in.loadRaw(x).(Array))), 64)
		case *Chan:
			if x == nil {
				return tt.BVConst(0, 64)
			}
			return tt.BVConst(uint64(x.cap), 64)
		}
	case "delete":
		in.mapDelete(fr, args[0].(*Map), args[1])
		return nil
	case "clear":
		switch x := args[0].(type) {
		case *Map:
			if x != nil {
				for i := range x.live {
					x.live[i] = false
				}
				x.n, x.nsym = 0, 0
				x.index = map[string]int{}
			}
		case Slice:
			for i := range x {
				x[i] = in.zeroLike(x[i])
			}
		}
		return nil
	case "close":
		ch := args[0].(*Chan)
		if in.sc != nil && in.sc.enabled {
			in.schedPoint(fr)
			in.gClose(fr, ch)
			return nil
		}
		if ch == nil {
			in.throw(fr, "close of nil channel")
		}
		if ch.closed {
			in.throw(fr, "close of closed channel")
		}
		ch.closed = true
		return nil
	case "print", "println":
		return nil
	case "panic":
		panic(&targetPanic{v: args[0], msg: in.panicString(args[0])})
	case "recover":
		return in.doRecover(fr)
	case "min", "max":
		res := args[0]
		for _, a := range args[1:] {
			res = in.minmax(fn.Name() == "min", fn.Type().(*types.Signature).Params().At(0).Type(), res, a)
		}
		return res
	case "ssa:wrapnilchk":
		recv := args[0]
		if p, ok := recv.(Ptr); ok && p.isNil() {
			in.throw(fr, "value method called using nil pointer")
		}
		return recv
	case "String": // unsafe.String(ptr, len)
		p := args[0].(Ptr)
		n := int(int64(in.concInt(args[1], "unsafe.String len")))
		if n == 0 {
			return in.str("")
		}
		if p.isNil() {
			in.throw(fr, "unsafe.String: ptr is nil and len is not zero")
		}
		full := p.base[:cap(p.base)]
		if p.sym != nil || p.i+n > len(full) {
			unsupported("unsafe.String beyond allocation")
		}
		// a Go unsafe.String aliases the bytes: later writes to them show through
		return &Str{alias: full[p.i : p.i+n : p.i+n]}
	case "StringData":
		s := args[0].(*Str)
		if s.Len() == 0 {
			return Ptr{base: []Value{in.byteC[0]}}
		}
		if s.alias != nil {
			return Ptr{base: s.alias, i: 0}
		}
		b := in.strToBytes(s)
		return Ptr{base: b, i: 0}
	case "Slice": // unsafe.Slice(ptr, len)
		p := args[0].(Ptr)
		n := int(int64(in.concInt(args[1], "unsafe.Slice len")))
		if p.isNil() {
			if n == 0 {
				return Slice(nil)
			}
			in.throw(fr, "unsafe.Slice: ptr is nil and len is not zero")
		}
		full := p.base[:cap(p.base)]
		if p.sym != nil || p.i+n > len(full) {
			unsupported("unsafe.Slice beyond allocation")
		}
		return Slice(full[p.i : p.i+n : p.i+n])
	case "SliceData":
		s := args[0].(Slice)
		if s == nil {
			return Ptr{}
		}
		if cap(s) == 0 {
			return Ptr{base: []Value{in.byteC[0]}}
		}
		return Ptr{base: s[:cap(s)], i: 0}
	case "Add":
		p := args[0].(Ptr)
		n := int(int64(in.concInt(args[1], "unsafe.Add")))
		if p.isNil() || p.sym != nil {
			unsupported("unsafe.Add on nil/symbolic pointer")
		}
		return Ptr{base: p.base, i: p.i + n}
	}
	unsupported("builtin %s on %T", fn.Name(), firstOrNil(args))
	return nil
}

func firstOrNil(a []Value) Value {
	if len(a) == 0 {
		return nil
	}
	return a[0]
}

func (in *Interp) zeroLike(v Value) Value {
	switch v := v.(type) {
	case *Term:
		switch v.sort.K {
		case SBool:
			return in.tt.Bool(false)
		case SBV:
			return in.tt.BVConst(0, v.sort.W)
		case SFP:
			return in.tt.FPConstBits(0, v.sort.W)
		}
	case *Str:
		return in.str("")
	case Ptr:
		return Ptr{}
	case Slice:
		return Slice(nil)
	case Iface:
		return Iface{}
	case *Map:
		return (*Map)(nil)
	case *Closure:
		return (*Closure)(nil)
	case *Chan:
		return (*Chan)(nil)
	case Struct:
		n := make(Struct, len(v))
		for i := range v {
			n[i] = in.zeroLike(v[i])
		}
		return n
	case Array:
		n := make(Array, len(v))
		for i := range v {
			n[i] = in.zeroLike(v[i])
		}
		return n
	}
	unsupported("zeroLike %T", v)
	return nil
}

func (in *Interp) minmax(isMin bool, t types.Type, a, b Value) Value {
	switch av := a.(type) {
	case *Term:
		bv := b.(*Term)
		var lt *Term
		if av.sort.K == SFP {
			// Go: NaN propagates; -0 < +0 for min/max
			nan := in.tt.Or(in.tt.FIsNaN(av), in.tt.FIsNaN(bv))
			lt = in.tt.CmpFP(OFLt, av, bv)
			var r *Term
			if isMin {
				r = in.tt.Ite(lt, av, bv)
			} else {
				r = in.tt.Ite(lt, bv, av)
			}
			nanv := in.tt.Ite(in.tt.FIsNaN(av), av, bv)
			return in.tt.Ite(nan, nanv, r)
		}
		_, signed, _ := intInfo(t)
		if signed {
			lt = in.tt.CmpBV(OSlt, av, bv)
		} else {
			lt = in.tt.CmpBV(OUlt, av, bv)
		}
		if isMin {
			return in.tt.Ite(lt, av, bv)
		}
		return in.tt.Ite(lt, bv, av)
	case *Str:
		bv := b.(*Str)
		lt := in.strLess(av, bv, false)
		in.curFrame = nil
		if in.decide(lt) == isMin {
			return av
		}
		return bv
	}
	unsupported("min/max on %T", a)
	return nil
}

func (in *Interp) doRecover(caller *frame) Value {
	// recover() must be called directly by a deferred function of a
	// panicking frame.
	if caller != nil && caller.caller != nil && caller.caller.panicking {
		p := caller.caller
		p.panicking = false
		tp := p.panicVal
		p.panicVal = nil
		switch v := tp.v.(type) {
		case Iface:
			return v
		default:
			return Iface{t: types.Typ[types.String], v: in.str(tp.msg)}
		}
	}
	return Iface{}
}
