package main

// Intrinsics for C02-O1 (float spelling in zson.formatPrimitive).
//
// The engine has no symbolic strconv.  The two spellings formatPrimitive can
// choose between are therefore produced as *tokens*: fixed-length strings whose
// cells carry the formatted number itself, so that the harness can apply the
// stated parse model to whichever spelling the REAL control flow of
// formatPrimitive selected.
//
//   fmt.Sprintf("%d.", x)  with a symbolic integer x
//        -> 10 cells: 0x01, the 8 bytes of int64(x) big-endian, '.'
//   strconv.FormatFloat(f, fmt, prec, bitSize)  with a symbolic f
//        -> 10 cells: 0x02, 8 payload bytes big-endian, byte(bitSize); the payload
//           is Float64bits(f) for bitSize 64 and Float32bits(float32(f)) (zero
//           extended) for bitSize 32 -- FormatFloat formats float32(f) then
//   strconv.FormatFloat of a concrete f -> the real text (computed by the same
//        strconv the native build uses).
//
//   zson.vTokenPayload(text) (a function of the C02 harness file whose Go body
//        reassembles the 8 payload bytes) -> the 64-bit term the token was cut
//        from, when the cells are exactly its bytes; otherwise the concatenation.
//        Same value, but the solver sees the identical term again.
//
// Every other fmt.Sprintf call keeps the opaque stub of intrinsics.go.  In the
// native replay the real fmt/strconv run and the harness uses the real parser.

import (
	"strconv"

	"golang.org/x/tools/go/ssa"
)

func c02BE64(in *Interp, tag byte, v *Term, last *Term) *Str {
	tt := in.tt
	c := make([]*Term, 0, 10)
	c = append(c, tt.BVConst(uint64(tag), 8))
	for i := 7; i >= 0; i-- {
		c = append(c, tt.Extract(v, i*8+7, i*8))
	}
	c = append(c, last)
	return in.mkStr(c)
}

func init() {
	prevSprintf := intrinsics["fmt.Sprintf"]
	intrinsics["fmt.Sprintf"] = func(in *Interp, fr *frame, fn *ssa.Function, a []Value) Value {
		if f, ok := strConc(a[0].(*Str)); ok && f == "%d." {
			if args, ok := a[1].(Slice); ok && len(args) == 1 {
				if ifc, ok := args[0].(Iface); ok && ifc.t != nil {
					if x, ok := ifc.v.(*Term); ok && x.sort.K == SBV && !x.IsConst() {
						if x.sort.W < 64 {
							x = in.tt.SExt(x, 64)
						}
						return c02BE64(in, 1, x, in.tt.BVConst('.', 8))
					}
				}
			}
		}
		return prevSprintf(in, fr, fn, a)
	}
	intrinsics["strconv.FormatFloat"] = func(in *Interp, fr *frame, fn *ssa.Function, a []Value) Value {
		f := a[0].(*Term)
		format := byte(in.concInt(a[1], "strconv.FormatFloat fmt"))
		prec := int(int64(in.concInt(a[2], "strconv.FormatFloat prec")))
		bits := int(int64(in.concInt(a[3], "strconv.FormatFloat bitSize")))
		if f.IsConst() {
			return in.str(strconv.FormatFloat(fpVal(f), format, prec, bits))
		}
		var payload *Term
		if bits == 32 {
			f32 := f
			if f.op == OFToF && f.args[0].sort.W == 32 {
				f32 = f.args[0] // float64(x) of a float32 x: float32(float64(x)) == x
			} else {
				f32 = in.tt.FPToFP(f, 32)
			}
			payload = in.tt.ZExt(in.fpBits(f32), 64)
		} else {
			payload = in.fpBits(f)
		}
		return c02BE64(in, 2, payload, in.tt.BVConst(uint64(bits), 8))
	}
	intrinsics["github.com/brimdata/super/zson.vTokenPayload"] = func(in *Interp, fr *frame, fn *ssa.Function, a []Value) Value {
		c := in.cells(a[0].(*Str))
		if len(c) < 9 {
			in.throw(fr, "vTokenPayload: slice bounds out of range")
		}
		c = c[1:9]
		var src *Term
		whole := true
		for i, t := range c {
			lo := (7 - i) * 8
			if t.op != OExtract || t.p1 != lo+7 || t.p2 != lo || t.args[0].sort.W != 64 || (src != nil && t.args[0] != src) {
				whole = false
				break
			}
			src = t.args[0]
		}
		if whole {
			return src
		}
		// the bytes of a zero-extended 32-bit term
		src, whole = nil, true
		for i, t := range c {
			if i < 4 {
				whole = whole && t.IsConst() && t.cval == 0
				continue
			}
			lo := (7 - i) * 8
			if !whole || t.op != OExtract || t.p1 != lo+7 || t.p2 != lo || t.args[0].sort.W != 32 || (src != nil && t.args[0] != src) {
				whole = false
				break
			}
			src = t.args[0]
		}
		if whole {
			return in.tt.ZExt(src, 64)
		}
		r := c[0]
		for _, t := range c[1:] {
			r = in.tt.Concat(r, t)
		}
		return r
	}
}
