package main

// Temporary-file name space for the spill model (file sorts after
// intrinsics_c20.go on purpose: it replaces os.CreateTemp, (*os.File).Name and
// os.Remove of that file and adds what spill.MergeSort needs on top of
// spill.File).
//
// intrinsics_c20.go models one anonymous in-memory temp file.
// spill.MergeSort (sort and groupby spills) creates a temp DIRECTORY, one
// named file per run (fs.Create -> os.OpenFile), asks each for its size
// (Stat), removes each run when it is exhausted and the directory in Cleanup.
// Model, per path:
//
//	os.MkdirTemp(dir, pat)        fresh directory name, recorded
//	os.CreateTemp(dir, pat)       fresh file name, recorded, empty memFile
//	os.OpenFile(name, flag, perm) O_CREATE (with O_TRUNC) of a name that does
//	                              not exist: recorded, empty memFile; a name
//	                              that does not exist without O_CREATE:
//	                              fs.ErrNotExist; re-opening an existing file
//	                              is not modelled (unsupported)
//	(*os.File).Name               the recorded name
//	(*os.File).Stat, os.Stat      a *os.fileStat with the current size (a
//	                              directory: ModeDir); unknown name:
//	                              *fs.PathError wrapping fs.ErrNotExist
//	os.Remove(name)               forgets the file / empty directory; unknown
//	                              name: *fs.PathError wrapping fs.ErrNotExist
//	                              (a second remove of the same file fails, as
//	                              it does on a real file system)
//	os.RemoveAll(path)            forgets path and everything below it; nil
//
// Reads and writes stay those of intrinsics_c20.go (never fail: failing sinks
// are C18's subject).  The name space is environment, not code under test.

import (
	"go/types"
	"reflect"
	"strconv"
	"strings"
	"sync"

	"golang.org/x/tools/go/ssa"
)

type spillFS struct {
	owner map[string]bool // per-path identity, see lz4PairState.owner
	seq   int
	files map[string]*memFile
	names map[*memFile]string
	dirs  map[string]bool
}

var (
	spillFSMu     sync.Mutex
	spillFSStates = map[*Interp]*spillFS{}
)

func spillFSOf(in *Interp) *spillFS {
	spillFSMu.Lock()
	defer spillFSMu.Unlock()
	st := spillFSStates[in]
	if st == nil {
		st = &spillFS{}
		spillFSStates[in] = st
	}
	if st.owner == nil || reflect.ValueOf(st.owner).Pointer() != reflect.ValueOf(in.onceDone).Pointer() {
		*st = spillFS{owner: in.onceDone, files: map[string]*memFile{}, names: map[*memFile]string{}, dirs: map[string]bool{}}
	}
	return st
}

const spillFSRoot = "/verif-model-tmp"

func (st *spillFS) fresh(dir, pattern string) string {
	if dir == "" {
		dir = spillFSRoot
	}
	st.seq++
	prefix, suffix := pattern, ""
	if i := strings.LastIndexByte(pattern, '*'); i >= 0 {
		prefix, suffix = pattern[:i], pattern[i+1:]
	}
	return dir + "/" + prefix + strconv.Itoa(st.seq) + suffix
}

func (st *spillFS) create(name string) Value {
	f := &memFile{}
	st.files[name] = f
	st.names[f] = name
	return Ptr{base: []Value{Struct{f}}}
}

func spillFSArg(v Value, what string) string {
	s, ok := v.(*Str)
	if ok {
		if c, ok := strConc(s); ok {
			return c
		}
	}
	unsupported("temp-file model: %s is not a concrete string", what)
	return ""
}

// spillFSNotExist builds &fs.PathError{Op: op, Path: name, Err: fs.ErrNotExist}.
func (in *Interp) spillFSNotExist(fr *frame, op, name string) Value {
	pkg := in.prog.ImportedPackage("io/fs")
	if pkg == nil || pkg.Var("ErrNotExist") == nil || pkg.Type("PathError") == nil {
		unsupported("temp-file model: io/fs not loaded")
	}
	sentinel := in.load(fr, in.globalPtr(pkg.Var("ErrNotExist")))
	t := pkg.Type("PathError").Type()
	cell := []Value{Struct{in.str(op), in.str(name), sentinel}}
	return Iface{t: types.NewPointer(t), v: Ptr{base: cell}}
}

// spillFSInfo builds a *os.fileStat (an fs.FileInfo) with the given size.
func (in *Interp) spillFSInfo(name string, size int, dir bool) Value {
	pkg := in.prog.ImportedPackage("os")
	if pkg == nil || pkg.Type("fileStat") == nil {
		unsupported("temp-file model: os.fileStat not loaded")
	}
	t := pkg.Type("fileStat").Type()
	st := in.zero(t).(Struct)
	ut := t.Underlying().(*types.Struct)
	for i := 0; i < ut.NumFields(); i++ {
		switch ut.Field(i).Name() {
		case "name":
			base := name
			if j := strings.LastIndexByte(name, '/'); j >= 0 {
				base = name[j+1:]
			}
			st[i] = in.str(base)
		case "size":
			st[i] = in.tt.BVConst(uint64(size), 64)
		case "mode":
			if dir {
				st[i] = in.tt.BVConst(1<<31|0o700, 32)
			} else {
				st[i] = in.tt.BVConst(0o600, 32)
			}
		}
	}
	return Iface{t: types.NewPointer(t), v: Ptr{base: []Value{st}}}
}

func init() {
	intrinsics["os.MkdirTemp"] = func(in *Interp, fr *frame, fn *ssa.Function, a []Value) Value {
		st := spillFSOf(in)
		name := st.fresh(spillFSArg(a[0], "MkdirTemp dir"), spillFSArg(a[1], "MkdirTemp pattern"))
		st.dirs[name] = true
		return Tuple{in.str(name), Iface{}}
	}
	intrinsics["os.CreateTemp"] = func(in *Interp, fr *frame, fn *ssa.Function, a []Value) Value {
		st := spillFSOf(in)
		name := st.fresh(spillFSArg(a[0], "CreateTemp dir"), spillFSArg(a[1], "CreateTemp pattern"))
		return Tuple{st.create(name), Iface{}}
	}
	intrinsics["os.OpenFile"] = func(in *Interp, fr *frame, fn *ssa.Function, a []Value) Value {
		st := spillFSOf(in)
		name := spillFSArg(a[0], "OpenFile name")
		flag := in.concInt(a[1], "OpenFile flag")
		const oCreate, oTrunc = 0x40, 0x200 // linux/amd64
		if _, ok := st.files[name]; ok || st.dirs[name] {
			unsupported("temp-file model: re-opening an existing file")
		}
		if flag&oCreate == 0 {
			return Tuple{Ptr{}, in.spillFSNotExist(fr, "open", name)}
		}
		if i := strings.LastIndexByte(name, '/'); i > 0 && !st.dirs[name[:i]] {
			return Tuple{Ptr{}, in.spillFSNotExist(fr, "open", name)}
		}
		_ = oTrunc
		return Tuple{st.create(name), Iface{}}
	}
	intrinsics["(*os.File).Name"] = func(in *Interp, fr *frame, fn *ssa.Function, a []Value) Value {
		if name, ok := spillFSOf(in).names[memFileOf(a[0])]; ok {
			return in.str(name)
		}
		return in.str("/verif-model-tempfile")
	}
	intrinsics["(*os.File).Stat"] = func(in *Interp, fr *frame, fn *ssa.Function, a []Value) Value {
		f := memFileOf(a[0])
		return Tuple{in.spillFSInfo(spillFSOf(in).names[f], len(f.data), false), Iface{}}
	}
	intrinsics["os.Stat"] = func(in *Interp, fr *frame, fn *ssa.Function, a []Value) Value {
		st := spillFSOf(in)
		name := spillFSArg(a[0], "Stat name")
		if f, ok := st.files[name]; ok {
			return Tuple{in.spillFSInfo(name, len(f.data), false), Iface{}}
		}
		if st.dirs[name] {
			return Tuple{in.spillFSInfo(name, 0, true), Iface{}}
		}
		return Tuple{Iface{}, in.spillFSNotExist(fr, "stat", name)}
	}
	intrinsics["os.Remove"] = func(in *Interp, fr *frame, fn *ssa.Function, a []Value) Value {
		st := spillFSOf(in)
		name := spillFSArg(a[0], "Remove name")
		if f, ok := st.files[name]; ok {
			delete(st.files, name)
			_ = f // the open handle keeps working, as on a unix file system
			return Iface{}
		}
		if st.dirs[name] {
			for n := range st.files {
				if strings.HasPrefix(n, name+"/") {
					return in.mkError("remove " + name + ": directory not empty")
				}
			}
			delete(st.dirs, name)
			return Iface{}
		}
		return in.spillFSNotExist(fr, "remove", name)
	}
	intrinsics["os.RemoveAll"] = func(in *Interp, fr *frame, fn *ssa.Function, a []Value) Value {
		st := spillFSOf(in)
		name := spillFSArg(a[0], "RemoveAll path")
		for n := range st.files {
			if n == name || strings.HasPrefix(n, name+"/") {
				delete(st.files, n)
			}
		}
		for n := range st.dirs {
			if n == name || strings.HasPrefix(n, name+"/") {
				delete(st.dirs, n)
			}
		}
		return Iface{}
	}
}
