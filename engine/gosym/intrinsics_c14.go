package main

// Intrinsics added for the C14 (lake object / seek index metadata) harnesses.
//
//   - zson ZNG marshal/unmarshal of a Go struct (reflection driven in the real
//     code) as an *identity pair*: Marshal(&s) snapshots s (zed.Value fields
//     are deep-copied, as the real marshaler copies their bytes) into an
//     opaque zed.Value token; Unmarshal(token, &t) copies the snapshot into t.
//     Nothing is claimed about the serialised form.  In the native replay the
//     real marshaler runs.
//   - lz4 Compressor.CompressBlock: contract stub "incompressible" (returns
//     0, nil), which makes zngio.Writer emit uncompressed frames.
//   - ksuid.New: fresh distinct identifier (environment).

import (
	"go/types"
	"sync/atomic"

	"golang.org/x/tools/go/ssa"
)

const zedPkgPath = "github.com/brimdata/super"

func init() {
	intrinsics["(*"+zedPkgPath+"/zson.MarshalZNGContext).Marshal"] = c14Marshal
	intrinsics["(*"+zedPkgPath+"/zson.UnmarshalZNGContext).Unmarshal"] = func(in *Interp, fr *frame, fn *ssa.Function, a []Value) Value {
		return c14Unmarshal(in, fr, a[1], a[2])
	}
	intrinsics[zedPkgPath+"/zson.UnmarshalZNG"] = func(in *Interp, fr *frame, fn *ssa.Function, a []Value) Value {
		return c14Unmarshal(in, fr, a[0], a[1])
	}
	if _, ok := intrinsics["(*github.com/pierrec/lz4/v4.Compressor).CompressBlock"]; !ok {
		intrinsics["(*github.com/pierrec/lz4/v4.Compressor).CompressBlock"] = func(in *Interp, fr *frame, fn *ssa.Function, a []Value) Value {
			return Tuple{in.tt.BVConst(0, 64), Iface{}}
		}
	}
	if _, ok := intrinsics["github.com/segmentio/ksuid.New"]; !ok {
		intrinsics["github.com/segmentio/ksuid.New"] = func(in *Interp, fr *frame, fn *ssa.Function, a []Value) Value {
			n := atomic.AddUint64(&c14KsuidSeq, 1)
			id := make(Array, 20)
			for i := range id {
				id[i] = in.tt.BVConst(0, 8)
			}
			id[0] = in.tt.BVConst(0x0f, 8)
			for i := 0; i < 8; i++ {
				id[19-i] = in.tt.BVConst((n>>(8*uint(i)))&0xff, 8)
			}
			return id
		}
	}
}

var c14KsuidSeq uint64

func isZedValueType(t types.Type) bool {
	n, ok := t.(*types.Named)
	if !ok {
		if a, isAlias := t.(*types.Alias); isAlias {
			return isZedValueType(types.Unalias(a))
		}
		return false
	}
	o := n.Obj()
	return o.Name() == "Value" && o.Pkg() != nil && o.Pkg().Path() == zedPkgPath
}

// c14CloneZedValue gives a zed.Value (Struct{typ, base, len}) its own copy of
// the bytes it points to (native and nil-base values are returned as they are).
func (in *Interp) c14CloneZedValue(v Struct) Struct {
	base, ok := v[1].(Ptr)
	if !ok || base.isNil() || base.sym != nil {
		return v
	}
	if pkg := in.prog.ImportedPackage(zedPkgPath); pkg != nil {
		if g := pkg.Var("nativeBase"); g != nil {
			nb := in.globalPtr(g)
			if len(nb.base) > 0 && len(base.base) > 0 && &nb.base[0] == &base.base[0] {
				return v
			}
		}
	}
	lt, ok := v[2].(*Term)
	if !ok || !lt.IsConst() {
		unsupported("marshal intrinsic: zed.Value with symbolic byte length")
	}
	n := int(lt.cval)
	full := base.base[:cap(base.base)]
	if base.i+n > len(full) {
		unsupported("marshal intrinsic: zed.Value beyond its allocation")
	}
	nb := make([]Value, n)
	copy(nb, full[base.i:base.i+n])
	if n == 0 {
		nb = []Value{in.byteC[0]}
	}
	out := make(Struct, len(v))
	copy(out, v)
	out[1] = Ptr{base: nb, i: 0}
	return out
}

// c14Snapshot copies a struct value, detaching zed.Value fields (recursively
// through nested structs) from the caller's byte buffers.
func (in *Interp) c14Snapshot(t types.Type, v Value) Value {
	if isZedValueType(t) {
		return in.c14CloneZedValue(copyVal(v).(Struct))
	}
	st, ok := t.Underlying().(*types.Struct)
	if !ok {
		switch t.Underlying().(type) {
		case *types.Basic, *types.Array:
			return copyVal(v)
		}
		unsupported("marshal intrinsic: field of type %s", t)
	}
	sv := v.(Struct)
	out := make(Struct, len(sv))
	for i := range sv {
		out[i] = in.c14Snapshot(st.Field(i).Type(), sv[i])
	}
	return out
}

func c14Marshal(in *Interp, fr *frame, fn *ssa.Function, a []Value) Value {
	ifc := a[1].(Iface)
	if ifc.t == nil {
		unsupported("marshal intrinsic: nil value")
	}
	var elem types.Type
	var sv Value
	if pt, ok := ifc.t.Underlying().(*types.Pointer); ok {
		p := ifc.v.(Ptr)
		if p.isNil() {
			unsupported("marshal intrinsic: nil pointer")
		}
		elem, sv = pt.Elem(), in.loadRaw(p)
	} else {
		elem, sv = ifc.t, ifc.v
	}
	if _, ok := elem.Underlying().(*types.Struct); !ok {
		unsupported("marshal intrinsic: %s is not a struct", elem)
	}
	snap := in.c14Snapshot(elem, sv)
	cell := []Value{snap, Iface{t: elem}}
	pkg := in.prog.ImportedPackage(zedPkgPath)
	if pkg == nil || pkg.Var("Null") == nil {
		unsupported("marshal intrinsic: package %s not loaded", zedPkgPath)
	}
	tok := in.load(fr, in.globalPtr(pkg.Var("Null"))).(Struct)
	tok[1] = Ptr{base: cell, i: 0}
	tok[2] = in.tt.BVConst(0, 64)
	return Tuple{tok, Iface{}}
}

func c14Unmarshal(in *Interp, fr *frame, val Value, dst Value) Value {
	tok, ok := val.(Struct)
	ifc := dst.(Iface)
	if !ok || ifc.t == nil {
		unsupported("unmarshal intrinsic: bad arguments")
	}
	pt, ok := ifc.t.Underlying().(*types.Pointer)
	if !ok {
		unsupported("unmarshal intrinsic: target %s is not a pointer", ifc.t)
	}
	base, ok := tok[1].(Ptr)
	if !ok || base.isNil() || len(base.base) != 2 {
		unsupported("unmarshal intrinsic: value was not produced by the marshal intrinsic")
	}
	ti, ok := base.base[1].(Iface)
	if !ok || ti.t == nil || ti.v != nil {
		unsupported("unmarshal intrinsic: value was not produced by the marshal intrinsic")
	}
	if !types.Identical(ti.t, pt.Elem()) {
		return in.mkError("verif: unmarshal into " + pt.Elem().String() + " of a marshaled " + ti.t.String())
	}
	in.store(fr, ifc.v.(Ptr), in.c14Snapshot(ti.t, base.base[0]))
	return Iface{}
}
