#!/bin/bash
# seed_validate_par.sh <root> <fwd|rev>: validation loop with a per-seed lock so that several loops can run side by side
ROOT=${1:-/tmp/seeds3}; ORDER=${2:-fwd}
while true; do
  list=$(ls -d $ROOT/C*/a $ROOT/C*/b 2>/dev/null)
  [ $ORDER = rev ] && list=$(echo "$list" | tac)
  for d in $list; do
    [ -f $d/patch.diff ] && [ -f $d/meta.json ] || continue
    [ -f $d/.validated ] && continue
    mkdir $d/.vlock 2>/dev/null || continue
    prop=$(basename $(dirname $d)); x=$(basename $d)
    case $x in a) sfx=c;; b) sfx=d;; esac
    id=$prop-$sfx
    echo "== validate $id $(date +%H:%M)"
    SUITE_P=5 /verif/tools/validate_seed.sh $d $id > $d/val.log 2>&1
    python3 /verif/tools/collect_seed.py $d $id || echo "$id NOT VALID: $(tr -d '\n' < $d/validation.json)"
    touch $d/.validated
  done
  sleep 60
done
