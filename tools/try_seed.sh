#!/bin/bash
# try_seed.sh <seed dir> <PROPERTY> [gosym flags]: runs the property's check against a scratch
# worktree of /repo HEAD with the seed's patch applied (does not touch /repo).
set -u
SD=$1; PROP=$2; shift; shift
NAME=$(echo $SD | sed 's#.*/\([^/]*\)/\([^/]*\)$#\1-\2#')
WT=/tmp/try/$NAME-$$
mkdir -p /tmp/try; git -C /repo worktree prune
git -C /repo worktree add --detach $WT HEAD >/dev/null 2>&1 || exit 2
trap "git -C /repo worktree remove --force $WT >/dev/null 2>&1" EXIT
git -C $WT apply $SD/patch.diff 2>/dev/null || git -C $WT apply -C1 $SD/patch.diff 2>/dev/null || (cd $WT && patch -p1 -F3 -s < $SD/patch.diff) || { echo "patch does not apply"; exit 2; }
cd /verif && VERIF_REPO=$WT ./bin/gosym check $PROP --evidence /tmp/try/$NAME-$PROP.json "$@"
echo "exit=$?"
