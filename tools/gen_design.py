#!/usr/bin/env python3
"""Assembles /verif/DESIGN.md from design/*.md plus the generated findings and seed tables."""
import json, os, glob
D='/verif/design'
def rd(n): return open(os.path.join(D,n)).read()
import re, collections
cnt=collections.defaultdict(lambda:[0,0])
for root,_,files in os.walk('/verif/harness'):
    for fn in files:
        if fn.endswith('.go'):
            src=open(os.path.join(root,fn)).read()
            for m in re.finditer(r'((?:^//.*\n)+)func VerifH_(C\d\d)_\w+\(\)', src, re.M):
                th = 'verif:tier thorough' in m.group(1)
                cnt[m.group(2)][1 if th else 0]+=1
props=rd('A_props.md')
for pid,(q,t) in cnt.items():
    props=props.replace('{{'+pid+'}}', f"{q} + {t}")
total=sum(q+t for q,t in cnt.values())
import subprocess
nfix=len([l for l in subprocess.check_output(['git','-C','/repo','log','--format=%s']).decode().splitlines() if l.startswith('fix:')])
kk=json.load(open('/verif/known_findings.json'))
nknown=len({(x['property'],x['what']) for x in kk['findings']})
nseed=len(glob.glob('/verif/seeded/*/meta.json'))
head=rd('A_head.md').replace('{{NOBL}}',str(total)).replace('{{NFIX}}',str(nfix)).replace('{{NKNOWN}}',str(nknown)).replace('{{NKNOWNIDS}}',str(len(kk['findings']))).replace('{{NSEED}}',str(nseed))
out=[head, props]
if os.path.exists(os.path.join(D,'A_notes.md')): out.append(rd('A_notes.md'))
# findings
k=json.load(open('/verif/known_findings.json'))
f=["\n## A6. Findings on the pinned tree\n",
"Every entry below was produced by a check as a solver model, replayed natively by the\ncheck, and (for all but the ones marked) additionally confirmed through the public API\nby a throw-away test outside /repo.\n",
"\n### A6.1 Repaired (`fix:` commits in /repo; the unedited suite passes with all of them)\n"]
for x in k['fixed']:
    f.append("* "+x[len("fixed: "):] if x.startswith("fixed: ") else "* "+x)
f.append("\n### A6.2 Recorded as known findings (known_findings.json; the check prints `KNOWN-FINDING:` and exits 0)\n")
import collections
grp=collections.OrderedDict()
for x in k['findings']:
    grp.setdefault((x['property'],x['what']),[]).append(f"`{x['harness'].replace('VerifH_','')}/{x['assert']}`")
for (prop,what),ids in grp.items():
    f.append(f"* **{prop}** — {what}  \n  ids ({len(ids)}): "+", ".join(ids))
out.append('\n'.join(f)+'\n')
# seeds
s=["\n## A7. Seeded changes (independent breaking changes) and which check catches them\n",
"Each change was written by a fresh sub-agent that saw only the property text and a scratch\nworktree (nothing from /verif), compiles, passes the existing suite, and comes with a\ndemonstration that fails with it and passes without it — all re-confirmed by\n`tools/validate_seed.sh` in a scratch worktree.  `tools/seed_matrix.sh` applies each\npatch to a scratch worktree of /repo HEAD and runs the property's quick check against it\n(`VERIF_REPO` override; /repo itself is never touched).\n",
"Four rounds were run (ids -a/-b, -c/-d; round 3 = the -c/-d ids of C02, C04, C05, C07, C08, C09, C11, C13, C20; round 4 = the -e ids: changes that only manifest under particular goroutine interleavings of the threaded scanner, of two lake clients, of the loader).  A change that the\nchecks missed when it was delivered led to a stronger check (last column); every listed change is\nnow reported.  Not listed: one round-3 change for C07 (a wrong variable in optimizer.analyzeCuts):\nthat function was rewritten by fix ca3fc151e before the change could be validated, so the patch no\nlonger applies.\n",
"| seed | what it breaks | needs | caught by |","|---|---|---|---|"]
for d in sorted(glob.glob('/verif/seeded/*/meta.json')):
    m=json.load(open(d))
    det=m.get('detected_by') or {}
    if det.get('detected'):
        c="**yes** — "+(det.get('violations') or '').replace('obligation=','').replace('assert=','/ ').strip(';')
        if 'quick' not in (det.get('check') or '') or m['property'] not in (det.get('check') or ''):
            c+=" ("+(det.get('check') or '').split(' (')[0]+")"
        if m.get('strengthened_by'):
            c+=" — first missed; check strengthened: "+m['strengthened_by']
    elif det:
        c="**no** (exit %s)%s"%(det.get('exit'), (' — '+m['miss_reason']) if m.get('miss_reason') else '')
    else:
        c="not run yet"
    summ=(m.get('summary') or '').replace('\n',' ').replace('|','\\|')
    needs=(m.get('needs_to_manifest') or '').replace('\n',' ').replace('|','\\|')
    if len(summ)>260: summ=summ[:257]+'…'
    if len(needs)>200: needs=needs[:197]+'…'
    s.append(f"| {m['id']} | {summ} | {needs} | {c} |")
out.append('\n'.join(s)+'\n')
if os.path.exists(os.path.join(D,'A_tail.md')): out.append(rd('A_tail.md'))
out.append("\n# Part B — the original plan (obligation numbering; written before the build)\n\n"+rd('B_plan.md'))
open('/verif/DESIGN.md','w').write('\n'.join(out))
print("DESIGN.md", sum(len(x) for x in out), "bytes")
