#!/bin/bash
# seed_matrix.sh [ids...]: for every collected seed under /verif/seeded (or the given ids), run the
# property's quick check against a scratch worktree with the patch applied; record the result.
cd /verif
ids="$@"; [ -z "$ids" ] && ids=$(ls seeded)
for id in $ids; do
  prop=$(python3 -c "import json;print(json.load(open('seeded/$id/meta.json'))['property'])")
  log=/tmp/try/matrix-$id.log; mkdir -p /tmp/try
  ./tools/try_seed.sh /verif/seeded/$id $prop --workers ${W:-8} ${EXTRA:-} > $log 2>&1
  ex=$(grep '^exit=' $log | tail -1 | cut -d= -f2)
  viol=$(grep -A1 '^VIOLATION property' $log | grep 'obligation=' | sed 's/^ *//' | cut -d' ' -f1,2 | sort -u | head -5 | tr '\n' ';')
  python3 - "$id" "$ex" "$viol" <<'PY'
import json,sys,time
id,ex,viol=sys.argv[1:4]
p=f'/verif/seeded/{id}/meta.json'
m=json.load(open(p))
m['detected_by']={"check":f"/verif/check {m['property']} quick (run on a scratch worktree with the patch applied)","exit":ex,"violations":viol,"detected": ex=="1"}
json.dump(m,open(p,'w'),indent=1)
print(id,"exit",ex,viol)
PY
done
