#!/usr/bin/env python3
"""collect_seed.py <seed dir> <id>: copies a validated seed into /verif/seeded/<id>/"""
import json, os, shutil, sys, glob
sd, sid = sys.argv[1], sys.argv[2]
val = json.load(open(os.path.join(sd, 'validation.json')))
ok = (val['patch_applies'] == 'yes' and val['demo_unpatched'] == 'pass' and val['demo_patched'] == 'fail'
      and val['build_patched'] == 'ok' and val['suite_patched'] in ('pass',))
if not ok:
    print("NOT VALID:", val); sys.exit(1)
meta = json.load(open(os.path.join(sd, 'meta.json')))
dst = f'/verif/seeded/{sid}'
os.makedirs(dst, exist_ok=True)
shutil.copy(os.path.join(sd, 'patch.diff'), dst)
for f in glob.glob(os.path.join(sd, '*.go')):
    shutil.copy(f, dst)
out = {
    "id": sid,
    "property": meta.get('property'),
    "summary": meta.get('summary'),
    "needs_to_manifest": meta.get('needs'),
    "demo": meta.get('demo'),
    "author": "fresh sub-agent given only the property text and a scratch worktree",
    "confirmed_by_me": {
        "how": "tools/validate_seed.sh in a scratch worktree of /repo HEAD: demo on unpatched tree, demo on patched tree, go build ./..., full `go test -vet=off -count=1 -timeout 25m ./...` on the patched tree",
        "repo_head": val['repo_head'],
        "demo_unpatched": val['demo_unpatched'], "demo_patched": val['demo_patched'],
        "build_patched": val['build_patched'], "existing_suite_patched": val['suite_patched'],
    },
    "detected_by": None,
}
old = os.path.join(dst, 'meta.json')
if os.path.exists(old):
    try:
        out['detected_by'] = json.load(open(old)).get('detected_by')
    except Exception:
        pass
json.dump(out, open(old, 'w'), indent=1)
print("collected", sid)
