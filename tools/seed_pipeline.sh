#!/bin/bash
# seed_pipeline.sh <mode> <root>: mode=validate | matrix.  Two loops run side by side:
#  validate: full validation of each delivered seed (tools/validate_seed.sh), then collect into /verif/seeded
#  matrix:   as soon as a seed is delivered, run the property's quick check on a scratch worktree with the
#            patch (tools/try_seed.sh) and keep the result in <seed dir>/matrix.json; merged on collect.
MODE=$1; ROOT=${2:-/tmp/seeds2}
while true; do
  for d in $ROOT/C*/a $ROOT/C*/b; do
    [ -f $d/patch.diff ] && [ -f $d/meta.json ] || continue
    prop=$(basename $(dirname $d)); x=$(basename $d)
    case $x in a) sfx=c;; b) sfx=d;; esac
    id=$prop-$sfx
    if [ $MODE = validate ]; then
      [ -f $d/.validated ] && continue
      echo "== validate $id $(date +%H:%M)"
      SUITE_P=6 /verif/tools/validate_seed.sh $d $id > $d/val.log 2>&1
      python3 /verif/tools/collect_seed.py $d $id || echo "$id NOT VALID: $(tr -d '\n' < $d/validation.json)"
      touch $d/.validated
    else
      [ -f $d/.matrixed ] && continue
      echo "== matrix $id $(date +%H:%M)"
      log=/tmp/try/matrix-$id.log; mkdir -p /tmp/try
      (cd /verif && ./tools/try_seed.sh $d $prop --workers 8 > $log 2>&1)
      ex=$(grep '^exit=' $log | tail -1 | cut -d= -f2)
      viol=$(grep -A1 '^VIOLATION property' $log | grep 'obligation=' | sed 's/^ *//' | cut -d' ' -f1,2 | sort -u | head -5 | tr '\n' ';')
      python3 - "$d" "$prop" "$ex" "$viol" <<'PY'
import json,sys
d,prop,ex,viol=sys.argv[1:5]
json.dump({"check":f"/verif/check {prop} quick (run on a scratch worktree with the patch applied)","exit":ex,"violations":viol,"detected":ex=="1"},open(d+'/matrix.json','w'),indent=1)
print("  ",d,"exit",ex,viol[:200])
PY
      touch $d/.matrixed
    fi
  done
  # merge matrix results into collected seeds
  if [ $MODE = matrix ]; then
    for d in $ROOT/C*/a $ROOT/C*/b; do
      [ -f $d/matrix.json ] || continue
      prop=$(basename $(dirname $d)); x=$(basename $d); case $x in a) sfx=c;; b) sfx=d;; esac
      m=/verif/seeded/$prop-$sfx/meta.json
      [ -f $m ] && python3 - "$m" "$d/matrix.json" <<'PY'
import json,sys
m=json.load(open(sys.argv[1])); x=json.load(open(sys.argv[2]))
if m.get('detected_by')!=x:
    m['detected_by']=x; json.dump(m,open(sys.argv[1],'w'),indent=1)
PY
    done
  fi
  sleep 90
done
