#!/bin/bash
# seed_pipeline.sh <seeds root> <suffix map a->c b->d>: validates, collects and runs the matrix for every
# delivered seed under <root>/<PROP>/{a,b} that has not been processed yet.  Loops until stopped.
ROOT=${1:-/tmp/seeds2}
while true; do
  for d in $ROOT/C*/a $ROOT/C*/b; do
    [ -f $d/patch.diff ] && [ -f $d/meta.json ] || continue
    [ -f $d/.done ] && continue
    prop=$(basename $(dirname $d)); x=$(basename $d)
    case $x in a) sfx=c;; b) sfx=d;; esac
    id=$prop-$sfx
    echo "== $id $(date +%H:%M)"
    SUITE_P=6 /verif/tools/validate_seed.sh $d $id > $d/val.log 2>&1
    if python3 /verif/tools/collect_seed.py $d $id; then
      (cd /verif && W=8 ./tools/seed_matrix.sh $id)
    else
      echo "$id not valid: $(cat $d/validation.json | tr -d '\n')"
    fi
    touch $d/.done
  done
  sleep 120
done
