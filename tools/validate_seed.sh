#!/bin/bash
# validate_seed.sh <seed dir (contains patch.diff, meta.json, demo files)> <name>
# Confirms in a scratch worktree of /repo HEAD: demo passes unpatched, fails patched,
# patched tree builds and passes the full existing suite.  Writes <seed dir>/validation.json.
set -u
SD=$1; NAME=$2
export GOFLAGS=-mod=mod GOPROXY=off GOSUMDB=off GOTOOLCHAIN=local
WT=/tmp/val/$NAME
rm -rf $WT; git -C /repo worktree prune
git -C /repo worktree add --detach $WT HEAD >/dev/null 2>&1 || { echo "worktree failed"; exit 2; }
cleanup() { git -C /repo worktree remove --force $WT >/dev/null 2>&1; }
trap cleanup EXIT
cd $WT
PLACE=$(python3 -c "import json;m=json.load(open('$SD/meta.json'));d=m['demo'];print(d['place_at'])")
RUN=$(python3 -c "import json;m=json.load(open('$SD/meta.json'));d=m['demo'];print(d['run'])")
DEMO=$(ls $SD | grep -E '\.go$' | head -1)
applies=no; demo_clean=unknown; demo_patched=unknown; build=unknown; suite=unknown
if git apply --check $SD/patch.diff 2>/dev/null; then applies=yes; fi
mkdir -p $(dirname $PLACE); cp $SD/$DEMO $PLACE
if timeout 1200 bash -c "$RUN" > $SD/val_demo_clean.log 2>&1; then demo_clean=pass; else demo_clean=fail; fi
if [ $applies = yes ]; then
  git apply $SD/patch.diff
  if timeout 1200 bash -c "$RUN" > $SD/val_demo_patched.log 2>&1; then demo_patched=pass; else demo_patched=fail; fi
  rm -f $PLACE
  if go build ./... > $SD/val_build.log 2>&1; then build=ok; else build=fail; fi
  if [ "${SKIP_SUITE:-0}" = 1 ]; then suite=skipped; else
    if timeout 3000 go test -p ${SUITE_P:-6} -vet=off -count=1 -timeout 25m ./... > $SD/val_suite.log 2>&1; then suite=pass; else
      # timing-dependent tests fail now and then on a loaded machine: re-run the failing packages once on their own
      pkgs=$(grep -E '^FAIL[[:space:]]+github.com' $SD/val_suite.log | awk '{print $2}' | sort -u | tr '\n' ' ')
      if [ -n "$pkgs" ] && timeout 1500 go test -p 2 -vet=off -count=1 -timeout 20m $pkgs > $SD/val_suite_rerun.log 2>&1; then suite=pass; else suite=fail; fi
    fi
  fi
fi
python3 - <<PY
import json
json.dump({"name":"$NAME","repo_head":"$(git -C /repo log --format=%h -1)","patch_applies":"$applies","demo_unpatched":"$demo_clean","demo_patched":"$demo_patched","build_patched":"$build","suite_patched":"$suite"},open("$SD/validation.json","w"),indent=1)
print(open("$SD/validation.json").read())
PY
